"""C10 R-model / R-typed: the inline dictionary and the typed accessors interpreted (upv.dictapi) and compared with a Python dict."""
import itertools

from upv import facts, dictapi
from upv.absint import Finding, Undecided, PathEnd, SYM
from upv.report import Report, HOLDS, VIOLATED, UNDECIDED

UNIT = 'lib/upipe/udict_inline.c'
NULL = ('null',)


def universe(E):
    """(key id, name or None, type code, list of candidate values as octet lists)"""
    T = E
    S = lambda s: [ord(c) for c in s] + [0]
    u8 = lambda x: [(x >> (8 * (7 - i))) & 0xff for i in range(8)]
    return [
        ('x.a/opaque', 'x.a', T['UDICT_TYPE_OPAQUE'], [[], [1], [1, 2, 3]]),
        ('x.ab/opaque', 'x.ab', T['UDICT_TYPE_OPAQUE'], [[7], [7, 8]]),
        ('x.a/string', 'x.a', T['UDICT_TYPE_STRING'], [S(''), S('qrs')]),
        ('x.u/unsigned', 'x.u', T['UDICT_TYPE_UNSIGNED'], [u8(5), u8(1 << 40)]),
        ('x.v/void', 'x.v', T['UDICT_TYPE_VOID'], [[]]),
        ('f.def', None, T['UDICT_TYPE_FLOW_DEF'], [S('b.'), S('block.x.')]),
        ('f.id', None, T['UDICT_TYPE_FLOW_ID'], [u8(9), u8(0xffffffffff)]),
        ('p.cea_708', None, T['UDICT_TYPE_PIC_CEA_708'], [[], [4, 5], [4, 5, 6, 7]]),
        ('f.random', None, T['UDICT_TYPE_FLOW_RANDOM'], [[]]),
        ('k.rate', None, T['UDICT_TYPE_CLOCK_RATE'], [u8(25) + u8(1), u8(30000) + u8(1001)]),
    ]


class Ctx:
    def __init__(self, prog, min_size, extra):
        self.prog = prog
        self.U = prog.units[UNIT]
        self.min_size, self.extra = min_size, extra
        self.calls = 0

    def machine(self):
        return dictapi.DictAPI(self.prog, self.U, self.min_size, self.extra)

    def run(self, m, name, args):
        self.calls += 1
        m.steps = 0
        fn = self.prog.lookup(self.U, name)
        return m.run(fn, args)

    def set(self, m, d, key, val):
        _, name, typ, _ = key
        p, e = m.outvar('attr', None)
        r = self.run(m, 'udict_inline_set', [d, m.cstr(name), typ, len(val), p])
        if r != 0:
            return r
        a = e['attr']
        for i, x in enumerate(val):
            m.octet(('p', a[1], a[2] + i), None, write=True, val=x)
        return 0

    def get(self, m, d, key):
        _, name, typ, _ = key
        ps, es = m.outvar('size', None)
        pa, ea = m.outvar('attr', None)
        r = self.run(m, 'udict_inline_get', [d, m.cstr(name), typ, ps, pa])
        if r != 0:
            return None
        a = ea['attr']
        if not isinstance(es['size'], int) or es['size'] > 64:
            return ('size', es['size'])
        return [m.octet(('p', a[1], a[2] + i), None) for i in range(es['size'])]

    def delete(self, m, d, key):
        _, name, typ, _ = key
        return self.run(m, 'udict_inline_delete', [d, m.cstr(name), typ])

    def iterate(self, m, d):
        out = []
        pn, en = m.outvar('name', NULL)
        pt, et = m.outvar('type', 0)
        for _ in range(32):
            self.run(m, 'udict_inline_iterate', [d, pn, pt])
            if et['type'] == 0:
                return out
            nm = en['name']
            out.append((m.read_str(nm) if isinstance(nm, tuple) and nm[0] == 'p' else None, et['type']))
        raise Finding('endless iteration', None, 'udict_iterate does not reach the end after 32 steps')


def fmtv(v):
    if v is None:
        return 'absent'
    if not isinstance(v, list):
        return repr(v)
    return '[' + ' '.join(('%02x' % x) if isinstance(x, int) else '??' for x in v) + ']'


def verify(ctx, m, d, model, keys):
    """every key reads back what the model holds; iteration visits exactly the present keys once"""
    for k in keys:
        got = ctx.get(m, d, k)
        want = model.get(k[0])
        if got != want:
            return 'attribute %s reads %s, the model holds %s' % (k[0], fmtv(got), fmtv(want))
    it = ctx.iterate(m, d)
    want = [(k[1] if k[1] else None, k[2]) for k in keys if k[0] in model]
    if sorted(it, key=str) != sorted(want, key=str):
        return 'iteration visits %s, the model holds %s' % (sorted(it, key=str), sorted(want, key=str))
    # the buffer ends with the END marker at size-1
    dd = m.dicts[d[1]]
    if m.bytes[dd['buf']][dd['size'] - 1] != 0:
        return 'the octet at used size - 1 is not the END marker'
    return None


def apply(ctx, m, d, model, op, keys):
    kind, ki, vi = op
    k = keys[ki]
    if kind == 'set':
        r = ctx.set(m, d, k, k[3][vi])
        if r != 0:
            return 'set of %s (%d octets) fails with %r' % (k[0], len(k[3][vi]), r)
        model[k[0]] = list(k[3][vi])
    else:
        r = ctx.delete(m, d, k)
        if (r == 0) != (k[0] in model):
            return 'delete of %s %s, the attribute was %s' % (k[0], 'succeeds' if r == 0 else 'fails', 'present' if k[0] in model else 'absent')
        model.pop(k[0], None)
    return None


def sequences(keys, tier):
    ops = []
    for ki, k in enumerate(keys):
        for vi in range(len(k[3])):
            ops.append(('set', ki, vi))
        ops.append(('del', ki, 0))
    out = [[a] for a in ops] + [[a, b] for a in ops for b in ops]
    core = [0, 2, 5, 7] if tier == 'quick' else list(range(len(keys)))
    sets = [o for o in ops if o[0] == 'set' and o[1] in core]
    for a in sets:
        for b in sets:
            if a[1] == b[1]:
                continue
            for c in ops:
                if tier == 'quick' and c[1] not in (a[1], b[1]):
                    continue
                out.append([a, b, c])
    return out


def seq_name(seq, keys):
    return ';'.join('%s %s%s' % (o[0], keys[o[1]][0], ('=' + fmtv(keys[o[1]][3][o[2]])) if o[0] == 'set' else '') for o in seq)


def model_job(job):
    repo, tier, part, nparts = job
    prog = _prog(repo)
    res = []
    ncalls = 0
    for (mn, ex) in ((4, 3), (64, 16)):
        ctx = Ctx(prog, mn, ex)
        keys = universe(dictapi.DictAPI(prog, ctx.U).E)
        seqs = sequences(keys, tier)
        for si, seq in enumerate(seqs):
            if si % nparts != part:
                continue
            if mn == 64 and len(seq) > 2:
                continue
            inst = 'min=%d:%s' % (mn, seq_name(seq, keys))
            what = None
            try:
                m = ctx.machine()
                d = m.new_dict()
                model = {}
                for op in seq:
                    what = apply(ctx, m, d, model, op, keys)
                    if what:
                        break
                    what = verify(ctx, m, d, model, keys)
                    if what:
                        what = 'after %s: %s' % (seq_name([op], keys), what)
                        break
                if not what and len(seq) >= 2:
                    what = derived(ctx, m, d, model, keys)
            except Finding as f:
                what = str(f)
            except PathEnd:
                what = 'an assert() of the dictionary code fails'
            except Undecided as u:
                res.append((inst, UNDECIDED, {'why': str(u)}))
                continue
            res.append((inst, VIOLATED if what else HOLDS, {'what': what} if what else {}))
        ncalls += ctx.calls
    return res, ncalls


def derived(ctx, m, d, model, keys):
    """dup is equal and independent; import into a fresh dictionary carries everything; cmp tells equal from different"""
    pd, ed = m.outvar('dup', None)
    r = ctx.run(m, 'udict_control', [d, m.E['UDICT_DUP'], pd]) if False else m.control(None, {}, [d, m.E['UDICT_DUP'], pd], 0)
    dup = ed['dup']
    e = verify(ctx, m, dup, model, keys)
    if e:
        return 'the duplicate: ' + e
    if ctx.run(m, 'udict_cmp', [d, dup]) != 0:
        return 'udict_cmp of a dictionary and its duplicate is not 0'
    fresh = m.new_dict()
    if ctx.run(m, 'udict_import', [fresh, d]) != 0:
        return 'udict_import into an empty dictionary fails'
    e = verify(ctx, m, fresh, model, keys)
    if e:
        return 'after udict_import into an empty dictionary: ' + e
    if ctx.run(m, 'udict_cmp', [d, fresh]) != 0 or ctx.run(m, 'udict_cmp', [fresh, d]) != 0:
        return 'udict_cmp of a dictionary and its imported copy is not 0'
    # change the duplicate: the original keeps its content, and the comparison sees the difference (both ways)
    present = [k for k in keys if k[0] in model]
    if present:
        k = present[0]
        ctx.delete(m, dup, k)
        e = verify(ctx, m, d, model, keys)
        if e:
            return 'the original after a delete in its duplicate: ' + e
        if ctx.run(m, 'udict_cmp', [d, dup]) == 0 or ctx.run(m, 'udict_cmp', [dup, d]) == 0:
            return 'udict_cmp reports equality although %s was deleted from one side' % k[0]
        other = [v for v in k[3] if v != model[k[0]]]
        if other:
            ctx.set(m, dup, k, other[0])
            if ctx.run(m, 'udict_cmp', [d, dup]) == 0:
                return 'udict_cmp reports equality although %s differs' % k[0]
    absent = [k for k in keys if k[0] not in model]
    if absent:
        k = absent[0]
        ctx.set(m, fresh, k, k[3][0])
        if ctx.run(m, 'udict_cmp', [d, fresh]) == 0 or ctx.run(m, 'udict_cmp', [fresh, d]) == 0:
            return 'udict_cmp reports equality although one side holds %s in addition' % k[0]
    return None


def typed_checks(prog):
    """set_T then get_T for every typed accessor and value class"""
    res = []
    ctx = Ctx(prog, 4, 3)
    E = dictapi.DictAPI(prog, ctx.U).E
    T = E
    I64 = lambda x: x & ((1 << 64) - 1)

    def sgn(x):
        return x - (1 << 64) if x >> 63 else x
    cases = []
    for name, typ in (('x.n', None), (None, 'short')):
        U_ = T['UDICT_TYPE_UNSIGNED'] if typ is None else T['UDICT_TYPE_FLOW_ID']
        for v in (0, 1, 255, 1 << 32, (1 << 64) - 1, 0x0123456789abcdef):
            cases.append(('unsigned', name, U_, v))
        I_ = T['UDICT_TYPE_INT']
        if typ is None:
            for v in (0, 1, -1, -2, 127, -128, (1 << 62), -(1 << 62), (1 << 63) - 1, -(1 << 63) + 1, 0x0123456789abcdef, -0x0123456789abcdef):
                cases.append(('int', name, I_, v))
            for v in (0, 1, 127, 128, 255):
                cases.append(('small_unsigned', name, T['UDICT_TYPE_SMALL_UNSIGNED'], v))
            for v in (0, 1, -1, 127, -128):
                cases.append(('small_int', name, T['UDICT_TYPE_SMALL_INT'], v))
            for v in (0, 1):
                cases.append(('bool', name, T['UDICT_TYPE_BOOL'], v))
            for v in ('', 'a', 'hello.'):
                cases.append(('string', name, T['UDICT_TYPE_STRING'], v))
        R_ = T['UDICT_TYPE_RATIONAL'] if typ is None else T['UDICT_TYPE_CLOCK_RATE']
        for num, den in ((0, 1), (1, 2), (-1, 1001), (25, 1), (-(1 << 40), 3), ((1 << 62), (1 << 63) + 5), (-0x0123456789abcdef, 0xfedcba9876543210)):
            cases.append(('rational', name, R_, (num, den)))
    # a string taken from the dictionary itself (a pointer into its storage) stored back under the same or another name
    for full, k in (('block.mpeg2video.pic.', 6), ('block.mpeg2video.pic.', 0), ('ab', 1)):
        cases.append(('string-alias-same', 'x.n', T['UDICT_TYPE_STRING'], (full, k)))
        cases.append(('string-alias-other', 'x.n', T['UDICT_TYPE_STRING'], (full, k)))
    for kind, name, typ, v in cases:
        inst = '%s:%s:%s' % (kind, name or 'shorthand', v)
        what = None
        try:
            m = ctx.machine()
            d = m.new_dict()
            nm = m.cstr(name)
            if kind == 'rational':
                m.structs = {(('lv', 'var', 'value'), 'num'): I64(v[0]) if False else v[0], (('lv', 'var', 'value'), 'den'): v[1]}
                r = ctx.run(m, 'udict_set_rational', [d, ('st', 'value'), typ, nm])
                out = ('st', 'out')
                r2 = ctx.run(m, 'udict_get_rational', [d, out, typ, nm])
                got = (m.structs.get((out, 'num')), m.structs.get((out, 'den')))
                gn = got[0]
                if isinstance(gn, int) and gn >= (1 << 63):
                    gn = gn - (1 << 64)
                if r != 0 or r2 != 0 or (gn, got[1]) != (v[0], v[1]):
                    what = 'rational %d/%d written with udict_set_rational reads back as %s/%s (errors %r %r)' % (v[0], v[1], gn, got[1], r, r2)
            elif kind.startswith('string-alias'):
                full, k = v
                other = m.cstr('y.other')
                r = ctx.run(m, 'udict_set_string', [d, m.cstr(full), typ, nm])
                ctx.run(m, 'udict_set_unsigned', [d, 0x0102030405060708, T['UDICT_TYPE_UNSIGNED'], m.cstr('z.after')])
                if kind == 'string-alias-other':
                    ctx.run(m, 'udict_set_string', [d, m.cstr('q'), typ, other])
                    ctx.run(m, 'udict_set_unsigned', [d, 0x1112131415161718, T['UDICT_TYPE_UNSIGNED'], m.cstr('z.last')])
                p, e = m.outvar('p', None)
                r2 = ctx.run(m, 'udict_get_string', [d, p, typ, nm])
                src = e['p']
                if not (isinstance(src, tuple) and src[0] == 'p') or r != 0 or r2 != 0:
                    what = 'string %r cannot be read back (errors %r %r)' % (full, r, r2)
                else:
                    dst = nm if kind == 'string-alias-same' else other
                    r3 = ctx.run(m, 'udict_set_string', [d, ('p', src[1], src[2] + k), typ, dst])
                    p, e = m.outvar('p', None)
                    r4 = ctx.run(m, 'udict_get_string', [d, p, typ, dst])
                    got = m.read_str(e['p']) if isinstance(e['p'], tuple) and e['p'][0] == 'p' else None
                    if r3 != 0 or r4 != 0 or got != full[k:]:
                        what = 'udict_set_string given a pointer into the dictionary itself (octet %d of the value of %r): the attribute reads back as %r, the string passed was %r (errors %r %r)' % (
                            k, name, got, full[k:], r3, r4)
                    p, e = m.outvar('p', None)
                    r5 = ctx.run(m, 'udict_get_unsigned', [d, p, T['UDICT_TYPE_UNSIGNED'], m.cstr('z.after')])
                    if not what and (r5 != 0 or e['p'] != 0x0102030405060708):
                        what = 'after storing a string taken from the dictionary itself another attribute reads back as %r' % (e['p'],)
            elif kind == 'string':
                r = ctx.run(m, 'udict_set_string', [d, m.cstr(v), typ, nm])
                p, e = m.outvar('p', None)
                r2 = ctx.run(m, 'udict_get_string', [d, p, typ, nm])
                got = m.read_str(e['p']) if isinstance(e['p'], tuple) and e['p'][0] == 'p' else None
                if r != 0 or r2 != 0 or got != v:
                    what = 'string %r reads back as %r (errors %r %r)' % (v, got, r, r2)
            else:
                setter, getter = 'udict_set_' + kind, 'udict_get_' + kind
                r = ctx.run(m, setter, [d, v, typ, nm])
                p, e = m.outvar('p', None)
                r2 = ctx.run(m, getter, [d, p, typ, nm])
                got = e['p']
                if isinstance(got, int) and kind in ('int', 'small_int') and got >= (1 << (63 if kind == 'int' else 7)):
                    got -= (1 << (64 if kind == 'int' else 8))
                if r != 0 or r2 != 0 or got != v:
                    what = '%s %d written with %s reads back as %r (errors %r %r)' % (kind, v, setter, got, r, r2)
        except Finding as f:
            what = str(f)
        except PathEnd:
            what = 'an assert() fails'
        except Undecided as u:
            res.append((inst, UNDECIDED, {'why': str(u)}))
            continue
        res.append((inst, VIOLATED if what else HOLDS, {'what': what} if what else {}))
    return res


_G = {}


def _prog(repo):
    if _G.get('repo') != repo:
        _G['prog'] = facts.load_program([UNIT], repo=repo)
        _G['repo'] = repo
    return _G['prog']


def run_model(rep, repo, tier):
    import multiprocessing
    import os
    prog = _prog(repo)
    U = prog.units[UNIT]
    for n in ('udict_inline_set', 'udict_inline_get', 'udict_inline_delete', 'udict_inline_iterate', 'udict_inline_find', 'udict_inline_next'):
        if n not in U.funcs:
            raise facts.AnalysisBroken('anchor vanished: %s' % n)
    for n in ('udict_import', 'udict_cmp', 'udict_set_rational', 'udict_get_rational', 'udict_set_int', 'udict_get_int', 'udict_set_string'):
        if n not in prog.hdr.funcs:
            raise facts.AnalysisBroken('anchor vanished: %s' % n)
    rep.rule('R-model', 'udict_inline_set / get / delete / iterate interpreted on a concrete byte buffer (initial room of 4 octets growing by 3, and of 64) for every '
             'sequence of one or two operations and for the three-operation sequences that start with two sets, over ten attributes (named and shorthand; opaque of '
             '0/1/3 octets, strings, 8- and 16-octet scalars, void; two names one a prefix of the other, one name under two types): after every operation each '
             'attribute reads back the value of a Python dict and iteration visits exactly the present attributes once; then a duplicate is equal and independent, '
             'udict_import into an empty dictionary carries every attribute, udict_cmp is 0 for equal dictionaries and non-zero - both ways - when one attribute is '
             'deleted, changed or added; no access outside the buffer, no assertion failure')
    rep.rule('R-typed', 'udict_set_T then udict_get_T (bool, small_unsigned, small_int, unsigned, int, rational, string; named and shorthand) returns the value '
             'written, for zero, one, extreme, negative and mixed-octet values of each type')
    nparts = 16
    with multiprocessing.Pool(min(16, os.cpu_count() or 4)) as pool:
        out = pool.map(model_job, [(repo, tier, p, nparts) for p in range(nparts)], chunksize=1)
    seen = set()
    nops = ncalls = 0
    for res, nc in out:
        ncalls += nc
        for inst, status, detail in res:
            nops += 1
            if status == VIOLATED:
                key = str(detail.get('what'))[:60]
                if key in seen:
                    continue
                seen.add(key)
            rep.add('R-model', inst, status, 'lib/upipe/udict_inline.c', **detail)
    for inst, status, detail in typed_checks(prog):
        rep.add('R-typed', inst, status, 'include/upipe/udict.h', **detail)
    rep.tables['R-model'] = {'sequences': nops, 'interpreted_calls': ncalls}
    if nops < 1000:
        raise facts.AnalysisBroken('R-model ran only %d sequences' % nops)
