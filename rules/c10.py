"""C10 - attribute dictionaries behave as typed key-value maps (table
agreement and copy-order clauses only; DESIGN §4 C10)."""
import re

from upv import facts
from upv import pathrules as pr
from upv.facts import strip, strip_all_casts, strip_expect, walk, is_assign, const_of, enum_name, path_of
from upv.report import Report, HOLDS, VIOLATED, UNDECIDED, OOS

PROP = 'C10'

FIXED = ['bool', 'small_unsigned', 'small_int', 'unsigned', 'int', 'rational', 'float']
ALLT = ['opaque', 'string', 'void'] + FIXED


def init_rows(g):
    """rows of a global array initialiser as lists of element trees"""
    init = g.get('init')
    if not isinstance(init, dict) or init.get('k') != 'initlist':
        return None
    rows = []
    for e in init['elts']:
        rows.append(e['e'])
    return rows


def run(tier='quick', repo=None):
    repo = repo or facts.REPO
    rep = Report(PROP, tier)
    rep.level = 'proof'
    rep.explanation = (
        'Table-agreement and copy-order obligations of the dictionary code, one per row: the value size each fixed-size setter passes, the size its getter '
        'asserts and attr_sizes[] agree (R-sizes); the shorthand table has one row per shorthand enumerator, with pairwise distinct names, and every '
        'generated accessor that names a shorthand uses the typed accessor of that row\'s base type (R-shorthand); set_opaque / set_string / '
        'set_opaque_from_hex copy the value before udict_set may move the storage it lives in (R-copy-first); udict_inline_dup copies into a new '
        'storage and uref_dup_inner stores udict_dup(), not the pointer (R-dup-deep); udict_cmp enumerates both dictionaries and looks each attribute '
        'up in the other one (R-cmp-both); udict_inline_find compares whole NUL-terminated names (R-find-exact). Lookup / delete / growth behaviour '
        'over histories (TLV walking, memmove arithmetic) is NOT decided.')
    prog = facts.load_program(['lib/upipe/udict_inline.c'], repo=repo)
    H = prog.hdr
    u = prog.units['lib/upipe/udict_inline.c']
    rep.units = sorted(prog.units) + ['include/upipe/*.h (header unit)']
    rep.nfuncs = len(H.funcs) + len(u.funcs)
    E = H.enumerators
    if 'UDICT_TYPE_SHORTHAND' not in E:
        raise facts.AnalysisBroken('anchor vanished: UDICT_TYPE_SHORTHAND')
    SH = E['UDICT_TYPE_SHORTHAND']
    rep.rule('R-sizes', 'for each fixed-size type T: size constant passed by udict_set_T to udict_set == size asserted by udict_get_T == attr_sizes[UDICT_TYPE_T]')
    rep.rule('R-shorthand', 'len(inline_shorthands) == number of enumerators above UDICT_TYPE_SHORTHAND; names pairwise distinct; every header accessor calling udict_get_T/udict_set_T with a shorthand X has UDICT_TYPE_T == inline_shorthands[X - SHORTHAND - 1].base_type')
    rep.rule('R-copy-first', 'in udict_set_opaque, _set_string, _set_opaque_from_hex the memcpy into the attribute reads a local buffer filled before the udict_set call')
    rep.rule('R-dup-deep', 'udict_inline_dup allocates a new udict and memcpy()s size octets; uref_dup_inner stores udict_dup(uref->udict)')
    rep.rule('R-cmp-both', 'udict_cmp calls udict_iterate on both parameters, and between two iterations looks the attribute up in both dictionaries')
    rep.rule('R-find-exact', 'udict_inline_find matches a named attribute through strcmp() == 0 on the stored name (or memcmp over strlen(name) + 1 octets)')
    # ---- R-sizes ---------------------------------------------------------------
    g = u.globals.get('attr_sizes')
    rows = init_rows(g) if g else None
    if rows is None:
        raise facts.AnalysisBroken('anchor vanished: attr_sizes[]')
    table = [const_of(r) for r in rows]
    rep.tables['attr_sizes'] = table
    for T in FIXED:
        en = 'UDICT_TYPE_' + T.upper()
        if en not in E:
            raise facts.AnalysisBroken('anchor vanished: %s' % en)
        sfn, gfn = H.funcs.get('udict_set_' + T), H.funcs.get('udict_get_' + T)
        if sfn is None or gfn is None:
            raise facts.AnalysisBroken('anchor vanished: udict_set_%s / udict_get_%s' % (T, T))
        ssize = None
        for bid, s, x in sfn.calls():
            if x.get('fn') == 'udict_set' and len(x['args']) >= 4:
                ssize = const_of(x['args'][3])
        gsize = None
        for bid, s, x in gfn.nodes():
            if x.get('k') == 'bin' and x.get('op') == '==' and 'lhs' in x:
                l = strip_all_casts(x['lhs'])
                if isinstance(l, dict) and l.get('k') == 'ref' and l.get('n', '').startswith('size') and const_of(x['rhs']) is not None:
                    gsize = const_of(x['rhs'])
        tsize = table[E[en]] if E[en] < len(table) else None
        ok = ssize is not None and ssize == gsize == tsize
        rep.add('R-sizes', T, HOLDS if ok else VIOLATED, sfn.loc, setter=ssize, getter_asserts=gsize, attr_sizes=tsize,
                **({} if ok else {'what': 'sizes disagree for type %s: setter writes %s octets, getter expects %s, the TLV walker skips %s' % (T, ssize, gsize, tsize)}))
    # ---- R-shorthand --------------------------------------------------------------
    g = u.globals.get('inline_shorthands')
    rows = init_rows(g) if g else None
    if rows is None:
        raise facts.AnalysisBroken('anchor vanished: inline_shorthands[]')
    tab = []
    for r in rows:
        r = strip_all_casts(r)
        name, base = None, None
        if isinstance(r, dict) and r.get('k') == 'initlist':
            for e in r['elts']:
                v = strip_all_casts(e['e'])
                if e.get('f') == 'name' and isinstance(v, dict):
                    name = v.get('v')
                elif e.get('f') == 'base_type':
                    base = const_of(e['e'])
        tab.append((name, base))
    shorts = sorted((v, n) for n, v in E.items() if n.startswith('UDICT_TYPE_') and v > SH)
    ok = len(tab) == len(shorts)
    rep.add('R-shorthand', 'table-length', HOLDS if ok else VIOLATED, u.name, rows=len(tab), enumerators=len(shorts),
            **({} if ok else {'what': 'inline_shorthands[] has %d rows for %d shorthand enumerators' % (len(tab), len(shorts))}))
    names = [n for n, _ in tab]
    dup = sorted({n for n in names if names.count(n) > 1})
    rep.add('R-shorthand', 'names-distinct', HOLDS if not dup and all(names) else VIOLATED, u.name,
            **({} if not dup else {'what': 'duplicate shorthand names %s' % dup}))
    base_of = {('UDICT_TYPE_' + t.upper()): t for t in ALLT}
    nacc = 0
    badacc = []
    for fn in H.funcs.values():
        for bid, s, x in fn.calls():
            m = re.match(r'(?:udict|uref_attr)_(get|set)_(\w+)$', x.get('fn') or '')
            if not m or m.group(2) not in ALLT or len(x.get('args', [])) < 3:
                continue
            tv = const_of(x['args'][2])
            if tv is None or tv <= SH:
                continue
            idx = tv - SH - 1
            nacc += 1
            want = E.get('UDICT_TYPE_' + m.group(2).upper())
            row = tab[idx] if 0 <= idx < len(tab) else (None, None)
            if row[1] != want:
                badacc.append((fn, x, row, m.group(2)))
    if nacc < 30:
        raise facts.AnalysisBroken('only %d shorthand accessor call sites found in the headers' % nacc)
    for fn, x, row, T in badacc:
        rep.add('R-shorthand', 'accessor:%s' % fn.name, VIOLATED, '%s:%s' % (fn.file, x.get('l')),
                what='%s uses udict_*_%s with shorthand %s whose table row is %s' % (fn.name, T, enum_name(x['args'][2]), row))
    rep.add('R-shorthand', 'accessors-agree-with-table', HOLDS if not badacc else VIOLATED, None, call_sites=nacc)
    # bound test of udict_inline_shorthand: an observation, not a verdict
    f = u.funcs.get('udict_inline_shorthand')
    if f is not None:
        rep.add('R-shorthand', 'udict_inline_shorthand:bound', OOS, f.loc,
                why='the range test is `type > SHORTHAND + 1 + N`: a type code equal to SHORTHAND + N + 1 (not an enumerator) would index one row past the table; not reachable with valid types, reported as an observation only')
    # ---- R-copy-first ---------------------------------------------------------------
    for name in ('udict_set_opaque', 'udict_set_string', 'udict_set_opaque_from_hex'):
        fn = H.funcs.get(name)
        if fn is None:
            raise facts.AnalysisBroken('anchor vanished: %s' % name)
        ev = pr.Events(fn)
        setc = pr.m_call('udict_set')
        sets = ev.find(setc)
        ok, why = True, ''
        # every memcpy / store into the attribute after udict_set must not read a parameter-derived pointer
        params = {p['n'] for p in fn.params}
        for pos in sets:
            hits, _ = ev.reach((pos[0], pos[1]), pr.m_call(r'memcpy|__builtin___memcpy_chk|__builtin_memcpy|memmove|__builtin_memmove|__builtin___memmove_chk|strcpy|__builtin___strcpy_chk'), None)
            for h in hits:
                src = h[2]['args'][1]
                roots = {x.get('n') for x in walk(src) if x.get('k') == 'ref' and x.get('d') in ('param', 'local')}
                if roots & params:
                    ok, why = False, '%s copies from the caller\'s value (%s) after udict_set() may have moved the storage the value lives in' % (name, sorted(roots & params))
        # and a local copy is made before
        if ok and sets:
            pre = pr.must_precede(ev, pr.m_call(r'memcpy|__builtin___memcpy_chk|__builtin_memcpy|strlen|strcpy|\w*hex\w*'), setc)
            # at least one udict_set (the non-empty case) must be preceded by a copy
            if len(pre) == len(sets):
                ok, why = False, '%s calls udict_set() without having copied the value first' % name
        rep.add('R-copy-first', name, HOLDS if ok else VIOLATED, fn.loc, **({} if ok else {'what': why}))
    # ---- R-copy-absent ------------------------------------------------------------------
    rep.rule('R-copy-absent', 'uref_attr_copy_T (every attribute type of UREF_ATTR_TEMPLATE): every path to a return has deleted the attribute from the '
             'destination or stored the source\'s value into it - when the source lacks the attribute the destination ends without it, not with a stale value')
    ncopy = 0
    for name, fn in sorted(H.funcs.items()):
        if not re.match(r'^uref_attr_copy_\w+$', name) or name.endswith('_va') or fn.macro != 'UREF_ATTR_TEMPLATE' or not fn.blocks:
            continue
        ncopy += 1
        ev = pr.Events(fn)

        def on_dst(x, fn=fn):
            if x.get('k') != 'call' or not x.get('args'):
                return False
            if not (x.get('fn') == 'uref_attr_delete' or (x.get('fn') or '').startswith('uref_attr_set_')):
                return False
            a = strip_all_casts(fn.resolve(x['args'][0]))
            return isinstance(a, dict) and a.get('k') == 'ref' and a.get('d') == 'param' and a.get('pi') == 0
        _, ex = ev.reach(None, lambda x: False, on_dst, from_entry=True)
        rep.add('R-copy-absent', name, VIOLATED if ex else HOLDS, fn.loc,
                **({'what': '%s can return without having deleted the attribute from the destination or overwritten it: when the source lacks the attribute '
                            'the destination keeps its previous value, and a lookup after the copy returns something the source never held' % name} if ex else {}))
    if ncopy < 9:
        raise facts.AnalysisBroken('only %d uref_attr_copy_T functions found' % ncopy)
    # ---- R-list-all ----------------------------------------------------------------------
    rep.rule('R-list-all', 'uref_attr_delete_list applies every deletion of its list: no branch of the function depends on the verdict of a deletion (deleting an '
             'attribute that is absent reports an error, and the attributes behind it - uref_uri_delete, the aes and m3u lists - must go all the same)')
    fdl = H.funcs.get('uref_attr_delete_list')
    if fdl is None or not fdl.blocks:
        raise facts.AnalysisBroken('anchor vanished: uref_attr_delete_list')
    verdicts = set()
    for _, _, x in fdl.nodes():
        if is_assign(x) and isinstance(strip_all_casts(fdl.resolve(x['rhs'])), dict) and strip_all_casts(fdl.resolve(x['rhs'])).get('k') == 'call' \
                and not strip_all_casts(fdl.resolve(x['rhs'])).get('fn'):
            l = strip(x['lhs'])
            if isinstance(l, dict) and l.get('k') == 'ref':
                verdicts.add(l['n'])
    dep = [b for b in fdl.blocks if fdl.cond(b) and any(isinstance(y, dict) and y.get('k') == 'ref' and y.get('n') in verdicts for y in walk(fdl.resolve(fdl.cond(b)[0])))]
    ncall = sum(1 for _, _, x in fdl.nodes() if x.get('k') == 'call' and not x.get('fn'))
    if ncall < 1:
        raise facts.AnalysisBroken('uref_attr_delete_list: the call through the list was not found')
    rep.add('R-list-all', 'uref_attr_delete_list', VIOLATED if dep else HOLDS, fdl.loc,
            **({'what': 'the loop of uref_attr_delete_list tests the verdict of the previous deletion (%s): it stops at the first attribute that is already absent and leaves '
                        'the rest of the list in the dictionary' % sorted(verdicts)} if dep else {}))
    # ---- R-shorthand-bound ---------------------------------------------------------------
    rep.rule('R-shorthand-bound', 'udict_inline_shorthand interpreted on the first and the last shorthand type, on the value just past the last one and the next: it '
             'returns the table row of a shorthand type and NULL for anything beyond - never a pointer past inline_shorthands[]')
    from upv import dictapi as _dictapi
    from upv.absint import Finding as _F, Undecided as _U, PathEnd as _P
    fsh = u.funcs.get('udict_inline_shorthand')
    if fsh is None or not fsh.blocks:
        raise facts.AnalysisBroken('anchor vanished: udict_inline_shorthand')
    E_ = u.enumerators
    base_ = E_.get('UDICT_TYPE_SHORTHAND')
    nsh = len([k for k, v in E_.items() if k.startswith('UDICT_TYPE_') and isinstance(v, int) and base_ is not None and v > base_])
    if base_ is None or nsh < 10:
        raise facts.AnalysisBroken('shorthand enumerators not found')
    for off, want_row in ((1, 0), (nsh, nsh - 1), (nsh + 1, None), (nsh + 2, None)):
        what = None
        try:
            mm = _dictapi.DictAPI(prog, u)
            r = mm.run(fsh, [base_ + off])
            if want_row is None:
                if r != ('null',):
                    what = 'type SHORTHAND+%d (past the last shorthand, SHORTHAND+%d) yields %r instead of NULL: a row beyond the table' % (off, nsh, r)
            elif not (isinstance(r, tuple) and r[0] == 'p' and r[2] == want_row):
                what = 'type SHORTHAND+%d yields %r, expected row %d' % (off, r, want_row)
        except _F as f_:
            what = str(f_)
        except _P:
            what = 'an assert() fails'
        except _U as e_:
            rep.add('R-shorthand-bound', 'SHORTHAND+%d' % off, UNDECIDED, fsh.loc, why=str(e_))
            continue
        rep.add('R-shorthand-bound', 'SHORTHAND+%d' % off, VIOLATED if what else HOLDS, fsh.loc, **({'what': what} if what else {}))
    # ---- R-set-refusal ------------------------------------------------------------------
    rep.rule('R-set-refusal', 'udict_inline_set: once the previous attribute of another size has been removed (udict_inline_delete) no refusal other than the allocation '
             'failure of the growth is reachable - every validation of the request comes before the dictionary is touched, so a refused set leaves the value '
             'last stored in place')
    fset = u.funcs.get('udict_inline_set')
    if fset is None or not fset.blocks:
        raise facts.AnalysisBroken('anchor vanished: udict_inline_set')
    evs = pr.Events(fset)
    dele = pr.m_call('udict_inline_delete')
    if not evs.find(dele):
        raise facts.AnalysisBroken('udict_inline_set no longer calls udict_inline_delete')

    def refusal(n_):
        return n_.get('k') == 'return' and isinstance(n_.get('e'), dict) and (enum_name(n_['e']) or '').startswith('UBASE_ERR_') and \
            enum_name(n_['e']) not in ('UBASE_ERR_NONE', 'UBASE_ERR_ALLOC')
    late = pr.never_after(evs, dele, refusal)
    rep.add('R-set-refusal', 'udict_inline_set', VIOLATED if late else HOLDS, fset.loc if not late else '%s:%s' % (fset.file, late[0][1][2].get('l')),
            **({'what': 'a refusal (line %s) is reachable after the previous value was removed (line %s): the set fails and the attribute is gone' % (
                late[0][1][2].get('l'), late[0][0][2].get('l'))} if late else {}))
    # ---- R-cmp-width -------------------------------------------------------------------
    rep.rule('R-cmp-width', 'the generated uref_G_cmp_A helpers ("0 if both attributes are absent or identical"): no return of an int-valued function yields the '
             'difference of two operands wider than int (uint64_t, int64_t) or of floating type, narrowed on the way out - 2^32 - 0 and 0.5 - 0.0 both narrow to 0, '
             'i.e. "identical"')
    rep.rule('R-cmp-presence', 'the generated uref_G_cmp_A helpers look at the verdict of both getters: no getter call is a bare statement whose result is dropped')
    ncmp = 0
    for name, fn in sorted(H.funcs.items()):
        if not re.search(r'_cmp_\w+$', name) or not fn.blocks or not (fn.macro or '').startswith('UREF_ATTR_') or fn.ret != 'int':
            continue
        ncmp += 1
        bad = None
        for bid, st, x in fn.nodes():
            if x.get('k') != 'return' or not isinstance(x.get('e'), dict):
                continue
            e = x['e']
            # the returned expression: a subtraction computed in a type wider than int / in a floating type
            for y in walk(fn.resolve(e)):
                if isinstance(y, dict) and y.get('k') == 'bin' and y.get('op') == '-' and re.search(r'(uint64_t|int64_t|unsigned long|long|double|float)', str(y.get('t') or '')):
                    bad = (x.get('l'), y.get('t'))
        # presence counts: the verdict of each getter is looked at (absent on one side only is a difference, whatever default the
        # local variable holds)
        dropped = None
        for b_ in fn.blocks:
            for st_ in fn.stmts(b_):
                c_ = strip_all_casts(st_)
                if isinstance(c_, dict) and c_.get('k') == 'call' and re.search(r'_get_\w+$', c_.get('fn') or ''):
                    dropped = c_
        rep.add('R-cmp-presence', name, VIOLATED if dropped else HOLDS, fn.loc if not dropped else '%s:%s' % (fn.file, dropped.get('l')),
                **({'what': '%s ignores the verdict of %s: an attribute absent on one side compares with the default value of the local variable, so "absent" and '
                            '"present with that value" are reported identical' % (name, dropped.get('fn'))} if dropped else {}))
        rep.add('R-cmp-width', name, VIOLATED if bad else HOLDS, fn.loc if not bad else '%s:%s' % (fn.file, bad[0]),
                **({'what': '%s returns a difference computed in %s narrowed to int: values that differ by a multiple of 2^32 (or by less than 1) compare as identical' % (
                    name, bad[1])} if bad else {}))
    if ncmp < 50:
        raise facts.AnalysisBroken('only %d generated cmp helpers found' % ncmp)
    # ---- R-dup-deep --------------------------------------------------------------------
    fn = u.funcs.get('udict_inline_dup')
    if fn is None:
        raise facts.AnalysisBroken('anchor vanished: udict_inline_dup')
    ev = pr.Events(fn)
    okd = bool(ev.find(pr.m_call('udict_inline_alloc'))) and bool(ev.find(pr.m_call(r'memcpy|__builtin___memcpy_chk')))
    rep.add('R-dup-deep', 'udict_inline_dup', HOLDS if okd else VIOLATED, fn.loc,
            **({} if okd else {'what': 'the duplicate must own a new storage holding a copy of the octets'}))
    fn = H.funcs.get('uref_dup_inner')
    okd = False
    if fn:
        for bid, s, x in fn.nodes():
            if is_assign(x):
                l = strip(x['lhs'])
                if isinstance(l, dict) and l.get('k') == 'mem' and l.get('f') == 'udict':
                    r = strip_all_casts(x['rhs'])
                    okd = okd or (isinstance(r, dict) and r.get('k') == 'call' and r.get('fn') == 'udict_dup')
    rep.add('R-dup-deep', 'uref_dup_inner', HOLDS if okd else VIOLATED, fn.loc if fn else None,
            **({} if okd else {'what': 'uref_dup_inner must store udict_dup(uref->udict), not share the dictionary'}))
    # ---- R-cmp-both ----------------------------------------------------------------------
    fn = H.funcs.get('udict_cmp')
    if fn is None:
        raise facts.AnalysisBroken('anchor vanished: udict_cmp')
    ev = pr.Events(fn)
    its = ev.find(pr.m_call('udict_iterate'))
    iterated = set()
    for pos in its:
        a = strip_all_casts(pos[2]['args'][0])
        if isinstance(a, dict) and a.get('k') == 'ref' and a.get('d') == 'param':
            iterated.add(a['pi'])
    okc = iterated == {0, 1}
    why = '' if okc else 'udict_cmp iterates over parameters %s only: attributes present in the other dictionary alone are never seen' % sorted(iterated)
    if okc:
        # after each iterate, before the next iterate, both dictionaries are looked up
        for pos in its:
            gets, _ = ev.reach((pos[0], pos[1]), pr.m_call('udict_get'), pr.m_call('udict_iterate'))
            got = set()
            for gpos in gets:
                a = strip_all_casts(gpos[2]['args'][0])
                if isinstance(a, dict) and a.get('k') == 'ref' and a.get('d') == 'param':
                    got.add(a['pi'])
            if got != {0, 1}:
                okc, why = False, 'the loop at line %s looks the attribute up in parameters %s only' % (pos[2].get('l'), sorted(got))
    rep.add('R-cmp-both', 'udict_cmp', HOLDS if okc else VIOLATED, fn.loc, **({} if okc else {'what': why}))
    # ---- R-find-exact ---------------------------------------------------------------------
    fn = u.funcs.get('udict_inline_find')
    if fn is None:
        raise facts.AnalysisBroken('anchor vanished: udict_inline_find')
    okf, why = False, 'no comparison of the stored name with the looked-up name found'
    for bid, s, x in fn.calls():
        if x.get('fn') in ('strcmp', '__builtin_strcmp'):
            names = {r.get('n') for a in x['args'] for r in walk(a) if r.get('k') == 'ref'}
            if 'name' in names and 'attr' in names:
                okf = True
        if x.get('fn') in ('memcmp', 'strncmp', '__builtin_memcmp') and len(x['args']) == 3:
            names = {r.get('n') for a in x['args'][:2] for r in walk(a) if r.get('k') == 'ref'}
            if 'name' in names:
                # acceptable only over strlen(name) + 1 octets
                ln = x['args'][2]
                plus1 = any(n.get('k') == 'bin' and n.get('op') == '+' and (const_of(n.get('rhs')) == 1 or const_of(n.get('lhs')) == 1) for n in walk(ln))
                d = None
                ls = strip_all_casts(ln)
                if isinstance(ls, dict) and ls.get('k') == 'ref':
                    d = fn.local_defs().get(ls['n'])
                    plus1 = plus1 or (isinstance(d, dict) and any(n.get('k') == 'bin' and n.get('op') == '+' and (const_of(n.get('rhs')) == 1 or const_of(n.get('lhs')) == 1) for n in walk(d)))
                if plus1:
                    okf = True
                else:
                    why = 'names are compared with %s over a length that does not include the terminating NUL: a stored name that merely starts with the looked-up name matches' % x['fn']
    rep.add('R-find-exact', 'udict_inline_find', HOLDS if okf else VIOLATED, fn.loc, **({} if okf else {'what': why}))
    if rep.count(status=HOLDS) != len([o for o in rep.obs if o.status != OOS]):
        rep.level = 'other'
    rep.assumptions = ['enum udict_type values and the initialisers are those of the parsed tree (config.h of the tree)']
    from rules import c10model
    c10model.run_model(rep, repo, tier)
    return rep
