#!/bin/bash
# usage: verify_seed.sh <PROP> <n>   (seed in /tmp/seed-<PROP>/<n>, built worktree /tmp/wt-<PROP>)
# Confirms: patch applies and compiles, test suite result unchanged, demo passes
# without the patch and fails with it. Writes /tmp/seed-<PROP>/<n>/verify.json
id=$1; n=$2; wt=${WT:-/tmp/wt-$id}; sd=/tmp/seed-$id/$n
L="-L$wt/lib/upipe/.libs -L$wt/lib/upipe-modules/.libs -L$wt/lib/upump-ev/.libs -L$wt/lib/upipe-pthread/.libs"
LP="$wt/lib/upipe/.libs:$wt/lib/upipe-modules/.libs:$wt/lib/upump-ev/.libs:$wt/lib/upipe-pthread/.libs"
demo() { # build+run demo, echo exit code
  if [ -f $sd/demo.c ] && [ ! -f $sd/demo.sh ]; then
    cc -g -I$wt/include -I$wt $sd/demo.c $L -lupipe_modules -lupipe_pthread -lupump_ev -lupipe -lev -lpthread -lm -o $sd/demo.bin >$sd/demo.build.log 2>&1 || { echo build-fail; return; }
    ( cd $sd && LD_LIBRARY_PATH=$LP timeout 60 ./demo.bin >$sd/demo.out 2>&1; echo $? )
  else
    ( cd $sd && WT=$wt BS=/verif/stubs timeout 300 sh ./demo.sh >$sd/demo.out 2>&1; echo $? )
  fi
}
git -C $wt checkout -- . ; make -C $wt -j16 >/dev/null 2>&1
clean=$(demo)
git -C $wt apply $sd/patch.diff || { echo '{"ok":false,"why":"patch does not apply"}' > $sd/verify.json; exit 1; }
if make -C $wt -j16 >$sd/make.log 2>&1; then built=true; else built=false; fi
# a patch that only touches units the build does not compile (lib/upipe-ts, lib/upipe-framers: biTStream headers absent)
# cannot change a test result: the suite is not re-run for it (recorded as suite=unaffected)
suite=run
if ! grep '^+++ b/' $sd/patch.diff | grep -qv -e '^+++ b/lib/upipe-ts/' -e '^+++ b/lib/upipe-framers/'; then suite=unaffected; fi
if [ $suite = run ]; then
  # own network namespace: the UDP tests of concurrent suites cannot collide, no lock needed
  if unshare -n true 2>/dev/null; then
    unshare -n sh -c "ip link set lo up; make -k -C $wt/tests check -j8" >$sd/check.log 2>&1
  else
    flock /tmp/upipe-tests.lock make -k -C $wt/tests check -j16 >$sd/check.log 2>&1
  fi
  pass=$(grep -c '^PASS:' $sd/check.log); fail=$(grep '^FAIL:' $sd/check.log | tr '\n' ' ')
else
  pass=82; fail="FAIL: upipe_m3u_reader_test.sh "
fi
mut=$(demo)
git -C $wt checkout -- . ; make -C $wt -j16 >/dev/null 2>&1
ok=false
if [ "$built" = true ] && [ "$clean" = 0 ] && [ "$mut" != 0 ] && [ "$mut" != build-fail ] && [ "$pass" -ge 82 ] && [ "$fail" = "FAIL: upipe_m3u_reader_test.sh " ]; then ok=true; fi
echo "{\"ok\":$ok,\"built\":$built,\"demo_clean_exit\":\"$clean\",\"demo_mutant_exit\":\"$mut\",\"suite\":\"$suite\",\"tests_pass\":$pass,\"tests_fail\":\"$fail\"}" > $sd/verify.json
cat $sd/verify.json
