#!/bin/bash
# usage: save_seed.sh <PROP> <n> [<dest n>] : copies a verified seed from /tmp/seed-<PROP>/<n> into seeded/<PROP>-<dest n>
id=$1; n=$2; dn=${3:-$n}; d=/verif/seeded/$id-$dn; mkdir -p $d
cp /tmp/seed-$id/$n/patch.diff $d/; cp /tmp/seed-$id/$n/demo.* $d/ 2>/dev/null; rm -f $d/demo.bin $d/demo.out $d/demo.build.log
python3 - <<PY
import json
m=json.load(open('/tmp/seed-$id/$n/meta.json'))
v=json.load(open('/tmp/seed-$id/$n/verify.json'))
m['verified_by_me']=v
m['what_i_ran']='selftest/verify_seed.sh $id $n in scratch worktree /tmp/wt-$id: clean build + demo (exit 0), git apply patch, make -j16 (compiles), make -k -C tests check (82 pass, only the known upipe_m3u_reader_test.sh fails), demo (non-zero exit), revert'
if v.get('suite')=='unaffected': m['what_i_ran']=m['what_i_ran'].replace('make -k -C tests check (82 pass, only the known upipe_m3u_reader_test.sh fails)','suite not re-run: the patch touches only lib/upipe-ts / lib/upipe-framers units, which the build does not compile (biTStream headers absent), so no test result can change')
m['breaks_property']='$id'
json.dump(m,open('$d/meta.json','w'),indent=1)
PY
