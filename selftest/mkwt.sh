#!/bin/bash
# usage: mkwt.sh <dir>  -- scratch worktree of /repo HEAD, configured and built in-tree (autotools)
# remove with: git -C /repo worktree remove --force <dir>
set -e
d=$1
git -C /repo worktree add --detach "$d" HEAD >/dev/null 2>&1
cd "$d"
./bootstrap >/dev/null 2>&1
./configure >/dev/null 2>&1
make -j16 >/dev/null 2>&1
echo "built $d"
