#!/usr/bin/env python3
"""runs, for every seeded change, the check(s) of the property it breaks on /repo with the
patch applied (then reverts); prints a detection table and writes seeded/MATRIX.json"""
import json, os, subprocess, sys
V='/verif'
checks={c['property_id'] for c in json.load(open(V+'/MANIFEST.json'))['checks']}
only=sys.argv[1:]
res={}
if os.path.exists(V+'/seeded/MATRIX.json'):
    res=json.load(open(V+'/seeded/MATRIX.json'))
for d in sorted(os.listdir(V+'/seeded')):
    p=os.path.join(V,'seeded',d,'patch.diff')
    if not os.path.exists(p): continue
    prop=d.split('-')[0]
    if only and prop not in only and d not in only: continue
    extra=json.load(open(os.path.join(V,'seeded',d,'meta.json'))).get('also_check',[])
    row={}
    for pr in [prop]+extra:
        tier=None
        if ':' in pr:       # "C01:thorough": the check of another property, in the named tier
            pr,tier=pr.split(':')
        if pr not in checks:
            row[pr]='no-check'; continue
        if subprocess.run(['git','-C','/repo','apply','--check',p]).returncode: row[pr]='patch-does-not-apply'; continue
        subprocess.run(['git','-C','/repo','apply',p],check=True)
        try:
            r=subprocess.run([V+'/vcheck',pr,'--no-evidence']+(['--tier',tier] if tier else []),capture_output=True,text=True,cwd=V)
        finally:
            subprocess.run(['git','-C','/repo','checkout','--','.'],check=True)
        viol=[l for l in r.stdout.splitlines() if l.startswith('  rule=')]
        row[pr]={'rc':r.returncode,'first':viol[0][:200] if viol else ''}
    res[d]=row
    print(d, {k:(v if isinstance(v,str) else ('DETECTED' if v['rc']==1 else 'rc=%d'%v['rc'])) for k,v in row.items()}, flush=True)
json.dump(res,open(V+'/seeded/MATRIX.json','w'),indent=1,sort_keys=True)
