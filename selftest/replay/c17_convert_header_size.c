/* replay (by hand): upipe_h26xf_convert_frame compares the original offset
 * of the first slice with offsets of the frame being rewritten, so the header
 * size is not (or wrongly) updated when prefixes change size.
 * build+run: EXTRA_SRC=lib/upipe-framers/upipe_h26x_common.c selftest/replay/run.sh selftest/replay/c17_convert_header_size.c
 * exit 0 = header size after conversion is the offset of the first slice */
#include "common.h"
#include "upipe-framers/uref_h26x.h"
#include "upipe-framers/uref_h26x_flow.h"
#include "upipe-framers/upipe_h26x_common.h"

static int one(const uint8_t *in, size_t len, const uint64_t *offs, int noffs, uint64_t vcl,
               enum uref_h26x_encaps from, enum uref_h26x_encaps to, uint64_t expect)
{
    struct uref *uref = uref_block_alloc(uref_mgr, block_mgr, len);
    uint8_t *w; int sz = -1;
    ubase_assert(uref_block_write(uref, 0, &sz, &w));
    memcpy(w, in, len);
    uref_block_unmap(uref, 0);
    for (int i = 0; i < noffs; i++)
        ubase_assert(uref_h26x_set_nal_offset(uref, offs[i], i));
    ubase_assert(uref_block_set_header_size(uref, vcl));
    struct ubuf *annexb = upipe_h26xf_alloc_annexb(block_mgr);
    ubase_assert(upipe_h26xf_convert_frame(uref, from, to, block_mgr, annexb));
    uint64_t hs = 0;
    uref_block_get_header_size(uref, &hs);
    printf("header size %"PRIu64" after conversion, first slice starts at %"PRIu64"\n", hs, expect);
    ubuf_free(annexb);
    uref_free(uref);
    return hs != expect;
}

int main(void)
{
    setup();
    int bad = 0;
    /* Annex B: SPS(1) PPS(2) slice(5); the slice starts at 11 */
    static const uint8_t a[] = { 0,0,0,1,0x67, 0,0,0,1,0x68,0x11, 0,0,0,1,0x65,1,2,3,4 };
    static const uint64_t ao[] = { 5, 11 };
    bad |= one(a, sizeof(a), ao, 2, 11, UREF_H26X_ENCAPS_ANNEXB, UREF_H26X_ENCAPS_NALU, 3);
    /* 1-octet lengths to Annex B: the slice moves from 5 to 11 */
    static const uint8_t l[] = { 1,0x67, 2,0x68,0x11, 5,0x65,1,2,3,4 };
    static const uint64_t lo[] = { 2, 5 };
    bad |= one(l, sizeof(l), lo, 2, 5, UREF_H26X_ENCAPS_LENGTH1, UREF_H26X_ENCAPS_ANNEXB, 11);
    return bad;
}
