/* replay (by hand): the output subpipes of upipe_ts_split and
 * upipe_ts_psi_split throw new_flow_def before ready.
 * build+run: EXTRA_SRC="lib/upipe-ts/upipe_ts_split.c lib/upipe-ts/upipe_ts_psi_split.c" selftest/replay/run.sh selftest/replay/c04_ts_split_sub_ready.c
 * exit 0 = ready is the first event of both subpipes */
#include "common.h"
#include "upipe-ts/upipe_ts_split.h"
#include "upipe-ts/upipe_ts_psi_split.h"
#include "upipe-ts/uref_ts_flow.h"

static int first_event[2] = { -1, -1 };
static int which;
static int rec(struct uprobe *uprobe, struct upipe *upipe, int event, va_list args)
{
    if (event != UPROBE_LOG && first_event[which] == -1) first_event[which] = event;   /* every throw is announced by a log */
    return UBASE_ERR_NONE;
}

int main(void)
{
    setup();
    struct uprobe probe;
    uprobe_init(&probe, rec, NULL);
    int bad = 0;

    struct upipe_mgr *mgr = upipe_ts_split_mgr_alloc();
    struct upipe *split = upipe_void_alloc(mgr, uprobe_use(&uprobe_root));
    struct uref *flow = uref_block_flow_alloc_def(uref_mgr, "mpegts.");
    ubase_assert(upipe_set_flow_def(split, flow));
    ubase_assert(uref_ts_flow_set_pid(flow, 68));
    which = 0;
    struct upipe *sub = upipe_flow_alloc_sub(split, uprobe_use(&probe), flow);
    assert(sub != NULL);
    uref_free(flow);
    printf("ts_split sub: first event %d (%s)\n", first_event[0], first_event[0] == UPROBE_READY ? "ready" : "NOT ready");
    bad |= first_event[0] != UPROBE_READY;

    mgr = upipe_ts_psi_split_mgr_alloc();
    struct upipe *psplit = upipe_void_alloc(mgr, uprobe_use(&uprobe_root));
    flow = uref_block_flow_alloc_def(uref_mgr, "mpegtspsi.");
    ubase_assert(upipe_set_flow_def(psplit, flow));
    uint8_t filter[1] = { 0 }, mask[1] = { 0xff };
    ubase_assert(uref_ts_flow_set_psi_filter(flow, filter, mask, 1));
    which = 1;
    struct upipe *psub = upipe_flow_alloc_sub(psplit, uprobe_use(&probe), flow);
    assert(psub != NULL);
    uref_free(flow);
    printf("ts_psi_split sub: first event %d (%s)\n", first_event[1], first_event[1] == UPROBE_READY ? "ready" : "NOT ready");
    bad |= first_event[1] != UPROBE_READY;
    return bad;
}
