/* replay for C14 R-size-domain: upipe_ts_sync accepts set_output_size(0)
 * (the generic helper stores any value).  Its loops take output_size octets
 * off the buffered stream per iteration: with 0 nothing is ever consumed and
 * the first buffer that starts with a sync octet makes upipe_input - and a
 * flush - spin for ever, emitting empty units.
 * build+run: EXTRA_SRC=lib/upipe-ts/upipe_ts_sync.c selftest/replay/run.sh selftest/replay/c14_ts_sync_zero_size_hang.c
 * Expected: the size is refused (or the input returns); the driver gives up after 100000 units. */
#undef NDEBUG
#include "upipe/umem.h"
#include "upipe/umem_alloc.h"
#include "upipe/udict.h"
#include "upipe/udict_inline.h"
#include "upipe/ubuf.h"
#include "upipe/ubuf_block_mem.h"
#include "upipe/uref.h"
#include "upipe/uref_std.h"
#include "upipe/uref_block.h"
#include "upipe/uref_block_flow.h"
#include "upipe/uprobe.h"
#include "upipe/upipe.h"
#include "upipe-ts/upipe_ts_sync.h"
#include <stdio.h>
#include <string.h>
#include <stdlib.h>
#include <assert.h>

static int nb_out;
static int catch(struct uprobe *uprobe, struct upipe *upipe, int event, va_list args) { return UBASE_ERR_NONE; }
static struct upipe *sink_alloc(struct upipe_mgr *mgr, struct uprobe *uprobe, uint32_t sig, va_list args)
{
    struct upipe *upipe = malloc(sizeof(struct upipe));
    upipe_init(upipe, mgr, uprobe);
    return upipe;
}
static void sink_input(struct upipe *upipe, struct uref *uref, struct upump **upump_p)
{
    uref_free(uref);
    if (++nb_out >= 100000) {
        printf("FAIL: %d units output for one 376-octet buffer, upipe_input does not return\n", nb_out);
        exit(1);
    }
}
static int sink_control(struct upipe *upipe, int command, va_list args)
{
    return command == UPIPE_SET_FLOW_DEF ? UBASE_ERR_NONE : UBASE_ERR_UNHANDLED;
}
static struct upipe_mgr sink_mgr = { .refcount = NULL, .upipe_alloc = sink_alloc, .upipe_input = sink_input, .upipe_control = sink_control };

int main(void)
{
    struct umem_mgr *umem_mgr = umem_alloc_mgr_alloc();
    struct udict_mgr *udict_mgr = udict_inline_mgr_alloc(0, umem_mgr, -1, -1);
    struct uref_mgr *uref_mgr = uref_std_mgr_alloc(0, udict_mgr, 0);
    struct ubuf_mgr *ubuf_mgr = ubuf_block_mem_mgr_alloc(0, 0, umem_mgr, 0, 0, -1, 0);
    struct uprobe uprobe;
    uprobe_init(&uprobe, catch, NULL);
    struct upipe *sink = upipe_void_alloc(&sink_mgr, uprobe_use(&uprobe));
    struct upipe_mgr *mgr = upipe_ts_sync_mgr_alloc();
    struct upipe *pipe = upipe_void_alloc(mgr, uprobe_use(&uprobe));
    assert(pipe != NULL);
    struct uref *flow = uref_block_flow_alloc_def(uref_mgr, "mpegts.");
    ubase_assert(upipe_set_flow_def(pipe, flow));
    uref_free(flow);
    ubase_assert(upipe_set_output(pipe, sink));

    int err = upipe_set_output_size(pipe, 0);
    printf("set_output_size(0): %s\n", ubase_check(err) ? "accepted" : "refused");
    unsigned int size = 0;
    ubase_assert(upipe_get_output_size(pipe, &size));
    printf("output size in force: %u\n", size);

    struct uref *uref = uref_block_alloc(uref_mgr, ubuf_mgr, 376);
    uint8_t *b; int s = -1;
    ubase_assert(uref_block_write(uref, 0, &s, &b));
    memset(b, 0xff, 376);
    b[0] = 0x47; b[188] = 0x47;
    uref_block_unmap(uref, 0);
    upipe_input(pipe, uref, NULL);
    printf("upipe_input returned after %d units\n", nb_out);
    upipe_release(pipe);
    printf("OK\n");
    return 0;
}
