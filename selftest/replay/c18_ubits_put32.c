/* replay for C18 R-bits ubits_put:shift-out-of-range (nb=32, available=32):
 * three 32-bit fields written in a row do not read back */
#include <upipe/ubase.h>
#include <upipe/ubits.h>
#include <stdio.h>
int main(void)
{
    uint8_t buf[16] = {0};
    struct ubits w;
    ubits_init(&w, buf, sizeof(buf), UBITS_WRITE);
    uint32_t v[3] = { 0xAAAAAAAAu, 0x55555555u, 0x11111111u };
    for (int i = 0; i < 3; i++) ubits_put(&w, 32, v[i]);
    uint8_t *end; int err = ubits_clean(&w, &end);
    struct ubits r; ubits_init(&r, buf, end - buf, UBITS_READ);
    int bad = 0;
    for (int i = 0; i < 3; i++) {
        uint32_t g = ubits_get(&r, 32);
        printf("field %d: wrote %08x read %08x\n", i, v[i], g);
        if (g != v[i]) bad++;
    }
    printf("clean err=%d, octets=%ld\n", err, (long)(end - buf));
    return bad || (end - buf) != 12;
}
