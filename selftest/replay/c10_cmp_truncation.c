/* replay for C10 R-cmp-width: the generated uref_G_cmp_A helpers of the
 * 64-bit unsigned / signed and of the floating point attribute templates end
 * with `return v1 - v2;` in a function returning int: the difference is
 * truncated (2^32 - 0 -> 0) or rounded towards zero (0.5 - 0.0 -> 0), and
 * two different values are reported identical ("@return 0 if both
 * attributes are absent or identical").
 * Expected: 0 only for equal values. */
#undef NDEBUG
#include "upipe/umem.h"
#include "upipe/umem_alloc.h"
#include "upipe/udict.h"
#include "upipe/udict_inline.h"
#include "upipe/uref.h"
#include "upipe/uref_std.h"
#include "upipe/uref_block_flow.h"
#include "upipe/uref_clock.h"
#include <stdio.h>
#include <assert.h>

int main(void)
{
    struct umem_mgr *umem_mgr = umem_alloc_mgr_alloc();
    struct udict_mgr *udict_mgr = udict_inline_mgr_alloc(0, umem_mgr, -1, -1);
    struct uref_mgr *uref_mgr = uref_std_mgr_alloc(0, udict_mgr, 0);
    struct uref *a = uref_alloc_control(uref_mgr), *b = uref_alloc_control(uref_mgr);
    assert(a && b);
    int bad = 0;
    ubase_assert(uref_block_flow_set_octetrate(a, 0));
    ubase_assert(uref_block_flow_set_octetrate(b, UINT64_C(1) << 32));
    int r = uref_block_flow_cmp_octetrate(a, b);
    printf("octetrate 0 vs 2^32: cmp = %d\n", r);
    bad += r == 0;
    ubase_assert(uref_block_flow_set_octetrate(a, UINT64_C(5)));
    ubase_assert(uref_block_flow_set_octetrate(b, (UINT64_C(7) << 32) + 5));
    r = uref_block_flow_cmp_octetrate(a, b);
    printf("octetrate 5 vs 7*2^32+5: cmp = %d\n", r);
    bad += r == 0;
    ubase_assert(uref_block_flow_set_octetrate(b, 5));
    r = uref_block_flow_cmp_octetrate(a, b);
    printf("octetrate 5 vs 5: cmp = %d\n", r);
    bad += r != 0;
#ifdef HAVE_FLOAT_ATTR
#endif
    printf(bad ? "FAIL: %d wrong verdict(s)\n" : "OK\n", bad);
    uref_free(a); uref_free(b);
    uref_mgr_release(uref_mgr); udict_mgr_release(udict_mgr); umem_mgr_release(umem_mgr);
    return bad ? 1 : 0;
}
