/* replay for C04 R-dead X_free:log:X_clean_input (one root cause, helper
 * UPIPE_HELPER_INPUT clean_input): a paused trickplay subpipe holding one uref
 * is released; the probe must see nothing after UPROBE_DEAD. */
#undef NDEBUG
#include "upipe/uprobe.h"
#include "upipe/umem.h"
#include "upipe/umem_alloc.h"
#include "upipe/udict.h"
#include "upipe/udict_inline.h"
#include "upipe/uref.h"
#include "upipe/uref_std.h"
#include "upipe/uref_flow.h"
#include "upipe/upipe.h"
#include "upipe-modules/upipe_trickplay.h"
#include <stdio.h>
#include <assert.h>

static struct upipe *watched;
static int dead_seen, after_dead;

static int catch(struct uprobe *uprobe, struct upipe *upipe, int event, va_list args)
{
    if (upipe != watched)
        return UBASE_ERR_NONE;
    if (dead_seen) {
        after_dead++;
        printf("event %d (%s) after UPROBE_DEAD\n", event, uprobe_event_str(event));
    }
    if (event == UPROBE_DEAD)
        dead_seen = 1;
    return UBASE_ERR_NONE;
}

int main(void)
{
    struct umem_mgr *umem_mgr = umem_alloc_mgr_alloc();
    struct udict_mgr *udict_mgr = udict_inline_mgr_alloc(0, umem_mgr, -1, -1);
    struct uref_mgr *uref_mgr = uref_std_mgr_alloc(0, udict_mgr, 0);
    struct uprobe uprobe;
    uprobe_init(&uprobe, catch, NULL);
    struct upipe_mgr *mgr = upipe_trickp_mgr_alloc();
    struct upipe *trickp = upipe_void_alloc(mgr, uprobe_use(&uprobe));
    struct upipe *sub = upipe_void_alloc_sub(trickp, uprobe_use(&uprobe));
    assert(sub);
    watched = sub;
    struct uref *flow_def = uref_alloc(uref_mgr);
    ubase_assert(uref_flow_set_def(flow_def, "pic."));
    ubase_assert(upipe_set_flow_def(sub, flow_def));
    uref_free(flow_def);
    struct urational pause = { .num = 0, .den = 0 };
    ubase_assert(upipe_trickp_set_rate(trickp, pause));
    upipe_input(sub, uref_alloc(uref_mgr), NULL);   /* held: the pipe is paused */
    upipe_release(sub);
    upipe_release(trickp);
    upipe_mgr_release(mgr);
    printf("dead seen: %d, events after dead: %d\n", dead_seen, after_dead);
    return (dead_seen == 1 && after_dead == 0) ? 0 : 1;
}
