/* replay for C03 R-model ubuf_block_extract / peek / splice with a negative
 * offset and a size that runs past the end of the block: the request is out
 * of range (offset -4 of a 5-octet block leaves 4 octets) and must be refused;
 * the loop re-evaluates the negative offset against the block and wraps to
 * the start instead */
#include "common.h"
int main(void)
{
    setup();
    struct ubuf *ubuf = ubuf_block_alloc(block_mgr, 5);
    assert(ubuf);
    uint8_t *w; int size = -1;
    ubase_assert(ubuf_block_write(ubuf, 0, &size, &w));
    for (int i = 0; i < 5; i++) w[i] = 0x10 + i;
    ubuf_block_unmap(ubuf, 0);
    uint8_t out[8] = {0};
    int err = ubuf_block_extract(ubuf, -4, 5, out);
    printf("extract(offset -4, size 5) of a 5-octet block -> %d:", err);
    for (int i = 0; i < 5; i++) printf(" %02x", out[i]);
    printf("\n");
    uint8_t tmp[8];
    const uint8_t *p = ubuf_block_peek(ubuf, -4, 5, tmp);
    printf("peek(offset -4, size 5) -> %s\n", p ? "a pointer" : "NULL");
    if (p) ubuf_block_peek_unmap(ubuf, -4, tmp, p);
    struct ubuf *s = ubuf_block_splice(ubuf, -4, 5);
    size_t ssz = 0;
    if (s) ubuf_block_size(s, &ssz);
    printf("splice(offset -4, size 5) -> %s (size %zu)\n", s ? "a block" : "NULL", ssz);
    if (s) ubuf_free(s);
    ubuf_free(ubuf);

    return (ubase_check(err) || p != NULL || s != NULL) ? 1 : 0;
}
