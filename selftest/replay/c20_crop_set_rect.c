/* replay for C20 R-set-atomic _upipe_crop_set_rect:UPIPE_CROP_SET_RECT: a
 * rejected set_rect must leave the previous rectangle in force */
#include "common.h"
#include "upipe/uref_pic_flow.h"
#include "upipe-modules/upipe_crop.h"
int main(void)
{
    setup();
    struct upipe *sink = upipe_void_alloc(&sink_mgr, uprobe_use(&uprobe_root));
    struct upipe_mgr *mgr = upipe_crop_mgr_alloc();
    struct upipe *p = upipe_void_alloc(mgr, uprobe_use(&uprobe_root));
    assert(p);
    struct uref *fd = uref_pic_flow_alloc_def(uref_mgr, 1);
    ubase_assert(uref_pic_flow_add_plane(fd, 1, 1, 1, "y8"));
    ubase_assert(uref_pic_flow_set_hsize(fd, 32));
    ubase_assert(uref_pic_flow_set_vsize(fd, 32));
    ubase_assert(upipe_set_flow_def(p, fd));
    uref_free(fd);
    ubase_assert(upipe_set_output(p, sink));
    ubase_assert(upipe_crop_set_rect(p, 2, 4, 6, 8));
    int err = upipe_crop_set_rect(p, 100, 100, 0, 0);   /* does not fit a 32x32 picture */
    int64_t l, r, t, b;
    ubase_assert(upipe_crop_get_rect(p, &l, &r, &t, &b));
    printf("rejected set_rect: err=%d; get_rect -> %ld %ld %ld %ld (expected 2 4 6 8)\n", err, (long)l, (long)r, (long)t, (long)b);
    upipe_release(p);
    return (!ubase_check(err) && l == 2 && r == 4 && t == 6 && b == 8) ? 0 : 1;
}
