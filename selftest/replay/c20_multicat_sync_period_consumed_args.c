/* replay for C20 R-va-forward: upipe_multicat_sink_control reads the signature
 * and the value of UPIPE_FSINK_SET_SYNC_PERIOD from its argument list, stores
 * the value, and then forwards the same, already consumed, list to the inner
 * file sink with upipe_control_va: the inner pipe reads whatever follows on the
 * caller's stack as signature and value.  With an inner sink open the call
 * fails (or sets garbage) although the multicat sink has taken the new value.
 * Expected: set_sync_period succeeds and both pipes report the value. */
#undef NDEBUG
#include "upipe/umem.h"
#include "upipe/umem_alloc.h"
#include "upipe/udict.h"
#include "upipe/udict_inline.h"
#include "upipe/uref.h"
#include "upipe/uref_std.h"
#include "upipe/uref_block_flow.h"
#include "upipe/uref_clock.h"
#include "upipe/uprobe.h"
#include "upipe/uprobe_uref_mgr.h"
#include "upipe/uprobe_upump_mgr.h"
#include "upipe/upump.h"
#include "upump-ev/upump_ev.h"
#include "upipe/upipe.h"
#include "upipe-modules/upipe_multicat_sink.h"
#include "upipe-modules/upipe_file_sink.h"
#include <stdio.h>
#include <stdlib.h>
#include <string.h>
#include <assert.h>

static int catch(struct uprobe *uprobe, struct upipe *upipe, int event, va_list args) { return UBASE_ERR_NONE; }

int main(void)
{
    struct upump_mgr *upump_mgr = upump_ev_mgr_alloc_default(0, 0);
    struct umem_mgr *umem_mgr = umem_alloc_mgr_alloc();
    struct udict_mgr *udict_mgr = udict_inline_mgr_alloc(0, umem_mgr, -1, -1);
    struct uref_mgr *uref_mgr = uref_std_mgr_alloc(0, udict_mgr, 0);
    struct uprobe uprobe;
    uprobe_init(&uprobe, catch, NULL);
    struct uprobe *probe = uprobe_uref_mgr_alloc(uprobe_use(&uprobe), uref_mgr);
    probe = uprobe_upump_mgr_alloc(probe, upump_mgr);
    struct upipe_mgr *mgr = upipe_multicat_sink_mgr_alloc();
    struct upipe_mgr *fsink_mgr = upipe_fsink_mgr_alloc();
    struct upipe *pipe = upipe_void_alloc(mgr, uprobe_use(probe));
    assert(pipe != NULL);
    ubase_assert(upipe_multicat_sink_set_fsink_mgr(pipe, fsink_mgr));
    struct uref *flow = uref_block_flow_alloc_def(uref_mgr, NULL);
    ubase_assert(upipe_set_flow_def(pipe, flow));
    uref_free(flow);
    char dir[] = "/tmp/upv-multicat-XXXXXX";
    assert(mkdtemp(dir) != NULL);
    char path[64];
    snprintf(path, sizeof(path), "%s/", dir);
    ubase_assert(upipe_multicat_sink_set_path(pipe, path, ".ts"));
    ubase_assert(upipe_multicat_sink_set_mode(pipe, UPIPE_FSINK_OVERWRITE));
    /* one buffer so that the inner file sink exists */
    struct uref *uref = uref_alloc(uref_mgr);
    uref_clock_set_cr_sys(uref, 27000000);
    upipe_input(pipe, uref, NULL);

    int err = upipe_fsink_set_sync_period(pipe, 12345);
    uint64_t got = 0;
    upipe_fsink_get_sync_period(pipe, &got);
    printf("set_sync_period(12345): %s; get_sync_period: %llu\n", ubase_check(err) ? "accepted" : "REFUSED", (unsigned long long)got);
    int ok = ubase_check(err) && got == 12345;
    upipe_release(pipe);
    char cmd[96];
    snprintf(cmd, sizeof(cmd), "rm -rf %s", dir);
    if (system(cmd)) {}
    printf(ok ? "OK\n" : "FAIL\n");
    return !ok;
}
