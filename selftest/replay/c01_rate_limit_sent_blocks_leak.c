/* replay for C01 R-list-drain: upipe_rate_limit remembers what it sent during
 * the current window as a list of control urefs (sent_blocks); the free
 * function never drains that list.  A pipe released while its window is not
 * empty - i.e. any rate-limited pipe that forwarded data recently - leaks one
 * uref (and its dictionary) per buffer of the window.
 * Expected: after the pipe is gone the uref manager is back to one owner. */
#undef NDEBUG
#include "upipe/umem.h"
#include "upipe/umem_alloc.h"
#include "upipe/udict.h"
#include "upipe/udict_inline.h"
#include "upipe/ubuf.h"
#include "upipe/ubuf_block_mem.h"
#include "upipe/uref.h"
#include "upipe/uref_std.h"
#include "upipe/uref_block.h"
#include "upipe/uref_block_flow.h"
#include "upipe/uclock.h"
#include "upipe/uclock_std.h"
#include "upipe/uprobe.h"
#include "upipe/uprobe_uclock.h"
#include "upipe/uprobe_upump_mgr.h"
#include "upipe/upump.h"
#include "upump-ev/upump_ev.h"
#include "upipe/upipe.h"
#include "upipe-modules/upipe_rate_limit.h"
#include "upipe-modules/upipe_null.h"
#include <stdio.h>
#include <assert.h>

static int catch(struct uprobe *uprobe, struct upipe *upipe, int event, va_list args) { return UBASE_ERR_NONE; }

int main(void)
{
    struct upump_mgr *upump_mgr = upump_ev_mgr_alloc_default(0, 0);
    struct umem_mgr *umem_mgr = umem_alloc_mgr_alloc();
    struct udict_mgr *udict_mgr = udict_inline_mgr_alloc(0, umem_mgr, -1, -1);
    struct uref_mgr *uref_mgr = uref_std_mgr_alloc(0, udict_mgr, 0);
    struct ubuf_mgr *ubuf_mgr = ubuf_block_mem_mgr_alloc(0, 0, umem_mgr, 0, 0, -1, 0);
    struct uclock *uclock = uclock_std_alloc(0);
    struct uprobe uprobe;
    uprobe_init(&uprobe, catch, NULL);
    struct uprobe *probe = uprobe_uclock_alloc(uprobe_use(&uprobe), uclock);
    probe = uprobe_upump_mgr_alloc(probe, upump_mgr);
    assert(probe);

    struct upipe_mgr *null_mgr = upipe_null_mgr_alloc();
    struct upipe *null = upipe_void_alloc(null_mgr, uprobe_use(probe));
    struct upipe_mgr *mgr = upipe_rate_limit_mgr_alloc();
    struct upipe *rl = upipe_void_alloc(mgr, uprobe_use(probe));
    assert(rl && null);
    ubase_assert(upipe_set_output(rl, null));
    struct uref *flow_def = uref_block_flow_alloc_def(uref_mgr, NULL);
    ubase_assert(upipe_set_flow_def(rl, flow_def));
    uref_free(flow_def);
    ubase_assert(upipe_rate_limit_set_limit(rl, 1000000));
    ubase_assert(upipe_attach_uclock(rl));

    for (int i = 0; i < 3; i++) {
        struct uref *uref = uref_block_alloc(uref_mgr, ubuf_mgr, 100);
        assert(uref);
        upipe_input(rl, uref, NULL);
    }
    upipe_release(rl);
    upipe_release(null);
    int single = urefcount_single(uref_mgr->refcount);
    printf("uref manager back to a single owner after the pipe was released: %s\n", single ? "yes" : "NO (urefs are still alive)");
    printf(single ? "OK\n" : "FAIL\n");
    return !single;
}
