/* replay for C04 R-dead-guard: UPIPE_HELPER_OUTPUT_SIZE's set_output_size tests
 * `if (likely(X_get_flow_def(upipe, &flow_def)))` - the result of a function
 * that returns UBASE_ERR_NONE (0) on success, and always does.  The branch
 * that writes the new size into a copy of the flow definition and stores it
 * (so that the output is told before the next buffer) is dead code: after
 * upipe_set_output_size() the pipe cuts units of the new size but keeps
 * announcing the old one.
 * Expected: after set_output_size(N) the output flow definition says N. */
#undef NDEBUG
#include "upipe/umem.h"
#include "upipe/umem_alloc.h"
#include "upipe/udict.h"
#include "upipe/udict_inline.h"
#include "upipe/uref.h"
#include "upipe/uref_std.h"
#include "upipe/uref_flow.h"
#include "upipe/uref_block_flow.h"
#include "upipe/uprobe.h"
#include "upipe/upipe.h"
#include "upipe-modules/upipe_aggregate.h"
#include <stdio.h>
#include <assert.h>

static int catch(struct uprobe *uprobe, struct upipe *upipe, int event, va_list args)
{
    return UBASE_ERR_NONE;
}

int main(void)
{
    struct umem_mgr *umem_mgr = umem_alloc_mgr_alloc();
    struct udict_mgr *udict_mgr = udict_inline_mgr_alloc(0, umem_mgr, -1, -1);
    struct uref_mgr *uref_mgr = uref_std_mgr_alloc(0, udict_mgr, 0);
    struct uprobe uprobe;
    uprobe_init(&uprobe, catch, NULL);

    struct upipe_mgr *mgr = upipe_agg_mgr_alloc();
    struct upipe *agg = upipe_void_alloc(mgr, uprobe_use(&uprobe));
    assert(agg != NULL);
    struct uref *flow_def = uref_block_flow_alloc_def(uref_mgr, "foo.");
    assert(flow_def != NULL);
    ubase_assert(upipe_set_flow_def(agg, flow_def));
    uref_free(flow_def);

    struct uref *out;
    uint64_t size = 0;
    ubase_assert(upipe_get_flow_def(agg, &out));
    uref_block_flow_get_size(out, &size);
    printf("announced size after set_flow_def: %llu\n", (unsigned long long)size);

    ubase_assert(upipe_set_output_size(agg, 564));
    unsigned int got = 0;
    ubase_assert(upipe_get_output_size(agg, &got));
    ubase_assert(upipe_get_flow_def(agg, &out));
    size = 0;
    uref_block_flow_get_size(out, &size);
    printf("after set_output_size(564): get_output_size %u, announced size %llu\n", got, (unsigned long long)size);
    int bad = size != 564;
    if (bad)
        printf("FAIL: the output flow definition still announces %llu\n", (unsigned long long)size);
    upipe_release(agg);
    upipe_mgr_release(mgr);
    uprobe_clean(&uprobe);
    uref_mgr_release(uref_mgr);
    udict_mgr_release(udict_mgr);
    umem_mgr_release(umem_mgr);
    return bad;
}
