/* replay (by hand): upipe_h26xf_convert_frame leaves the NAL offset
 * attributes short of the size change of the NAL they end.
 * build+run: EXTRA_SRC=lib/upipe-framers/upipe_h26x_common.c selftest/replay/run.sh selftest/replay/c17_convert_nal_offsets.c
 * exit 0 = offsets after conversion delimit the NAL units and the round trip restores the octets */
#include "common.h"
#include "upipe-framers/uref_h26x.h"
#include "upipe-framers/uref_h26x_flow.h"
#include "upipe-framers/upipe_h26x_common.h"

int main(void)
{
    setup();
    /* two NAL units with 2-octet length prefixes: [00 01 AA] [00 02 BB CC] */
    static const uint8_t in[] = { 0, 1, 0xaa, 0, 2, 0xbb, 0xcc };
    struct uref *uref = uref_block_alloc(uref_mgr, block_mgr, sizeof(in));
    uint8_t *w; int sz = -1;
    ubase_assert(uref_block_write(uref, 0, &sz, &w));
    memcpy(w, in, sizeof(in));
    uref_block_unmap(uref, 0);
    ubase_assert(uref_h26x_set_nal_offset(uref, 3, 0));      /* second NAL starts at 3 */

    struct ubuf *annexb = upipe_h26xf_alloc_annexb(block_mgr);
    ubase_assert(upipe_h26xf_convert_frame(uref, UREF_H26X_ENCAPS_LENGTH2, UREF_H26X_ENCAPS_ANNEXB, block_mgr, annexb));
    uint8_t out[32]; size_t n;
    ubase_assert(uref_block_size(uref, &n));
    ubase_assert(uref_block_extract(uref, 0, n, out));
    printf("annex B frame (%zu octets):", n);
    for (size_t i = 0; i < n; i++) printf(" %02x", out[i]);
    uint64_t off = 0;
    ubase_assert(uref_h26x_get_nal_offset(uref, &off, 0));
    printf("\nsecond NAL announced at %"PRIu64", really starts at 5\n", off);
    int bad = off != 5;

    int err = upipe_h26xf_convert_frame(uref, UREF_H26X_ENCAPS_ANNEXB, UREF_H26X_ENCAPS_LENGTH2, block_mgr, annexb);
    if (!ubase_check(err)) { printf("converting back fails: %s\n", ubase_err_str(err)); return 1; }
    ubase_assert(uref_block_size(uref, &n));
    ubase_assert(uref_block_extract(uref, 0, n, out));
    printf("converted back (%zu octets):", n);
    for (size_t i = 0; i < n; i++) printf(" %02x", out[i]);
    printf("\n");
    if (n != sizeof(in) || memcmp(out, in, n)) { printf("round trip does NOT reproduce the original\n"); bad = 1; }
    return bad;
}
