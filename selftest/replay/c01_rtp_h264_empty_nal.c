/* replay for C01 R-own upipe_rtp_h264_input:leak:uref_block_splice(): an
 * access unit holding a NAL unit reduced to its header byte (here an AUD
 * "00 00 01 09" directly followed by the next start code) makes
 * upipe_rtp_h264_output_nalu return without freeing the spliced uref. */
#include "common.h"
#include "upipe-modules/upipe_rtp_h264.h"
int main(int argc, char **argv)
{
    setup();
    struct upipe *sink = upipe_void_alloc(&sink_mgr, uprobe_use(&uprobe_root));
    struct upipe_mgr *mgr = upipe_rtp_h264_mgr_alloc();
    struct upipe *p = upipe_void_alloc(mgr, uprobe_use(&uprobe_root));
    assert(p);
    struct uref *fd = uref_block_flow_alloc_def(uref_mgr, "h264.");
    ubase_assert(upipe_set_flow_def(p, fd));
    uref_free(fd);
    ubase_assert(upipe_set_output(p, sink));
    static const uint8_t au_bad[] = { 0,0,1, 0x09,  0,0,1, 0x41, 0xaa, 0xbb, 0xcc };
    static const uint8_t au_ok[] =  { 0,0,1, 0x09, 0xf0,  0,0,1, 0x41, 0xaa, 0xbb };
    const uint8_t *au = getenv("REPLAY_OK") ? au_ok : au_bad;
    struct uref *uref = uref_block_alloc(uref_mgr, block_mgr, sizeof(au_bad));
    uint8_t *buf; int size = -1;
    ubase_assert(uref_block_write(uref, 0, &size, &buf));
    memcpy(buf, au, sizeof(au_bad));
    uref_block_unmap(uref, 0);
    unsigned before = live_urefs();
    upipe_input(p, uref, NULL);
    upipe_release(p);
    upipe_mgr_release(mgr);
    unsigned after = live_urefs();
    printf("sink got %u, live urefs before input %u (the access unit), after release %u\n", sink_count, before, after);
    sink_free(sink);
    return after == 0 ? 0 : 1;
}
