/* replay for C01 R-own upipe_audio_split_input:double-free:uref:
 * upipe_audio_split_sub_process() frees the input uref when it is not a sound
 * buffer, and upipe_audio_split_input() then hands it to the next subpipe and
 * frees it again.  A uref without payload is input to a split pipe with two
 * outputs; a counting uref manager wrapper detects the second free. */
#include "common.h"
#include "upipe/uprobe_ubuf_mem.h"
#include "upipe/uprobe_prefix.h"
#include "upipe/uref_sound_flow.h"
#include "upipe-modules/upipe_audio_split.h"

/* uref manager wrapper: counts frees of the watched uref */
static struct uref_mgr wrap_mgr;
static struct uref *watched;
static int watched_frees;
static struct uref *wrap_alloc(struct uref_mgr *mgr) {
    struct uref *u = uref_mgr->uref_alloc(uref_mgr);
    if (u) u->mgr = &wrap_mgr;
    return u;
}
static void wrap_free(struct uref *uref) {
    if (uref == watched) {
        watched_frees++;
        if (watched_frees > 1) { printf("uref %p freed %d times\n", (void *)uref, watched_frees); fflush(stdout); _exit(1); }
        return; /* keep the memory so that the second free is observable */
    }
    uref->mgr = uref_mgr;
    uref_mgr->uref_free(uref);
}
int main(void)
{
    setup();
    wrap_mgr = *uref_mgr;
    wrap_mgr.uref_alloc = wrap_alloc;
    wrap_mgr.uref_free = wrap_free;
    struct uprobe *probe = uprobe_ubuf_mem_alloc(uprobe_use(&uprobe_root), umem_mgr, 0, 0);
    struct upipe *sink0 = upipe_void_alloc(&sink_mgr, uprobe_use(probe));
    struct upipe *sink1 = upipe_void_alloc(&sink_mgr, uprobe_use(probe));
    struct uref *flow = uref_sound_flow_alloc_def(uref_mgr, "s16.", 4, 8);
    ubase_assert(uref_sound_flow_add_plane(flow, "lrLR"));
    struct upipe_mgr *mgr = upipe_audio_split_mgr_alloc();
    struct upipe *split = upipe_void_alloc(mgr, uprobe_use(probe));
    ubase_assert(upipe_set_flow_def(split, flow));
    uref_free(flow);
    struct upipe *subs[2]; struct upipe *sinks[2] = { sink0, sink1 };
    for (int i = 0; i < 2; i++) {
        flow = uref_sound_flow_alloc_def(uref_mgr, "", 1, 0);
        ubase_assert(uref_sound_flow_add_plane(flow, "r"));
        ubase_assert(uref_audio_split_set_bitfield(flow, 0x2));
        subs[i] = upipe_flow_alloc_sub(split, uprobe_use(probe), flow);
        uref_free(flow);
        assert(subs[i]);
        ubase_assert(upipe_set_output(subs[i], sinks[i]));
    }
    /* a uref that carries no sound buffer (e.g. a stray control uref) */
    watched = uref_alloc(&wrap_mgr);
    assert(watched);
    upipe_input(split, watched, NULL);
    printf("input uref freed %d time(s)\n", watched_frees);
    return watched_frees == 1 ? 0 : 1;
}
