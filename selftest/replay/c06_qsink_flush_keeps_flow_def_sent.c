/* replay for C06 R-queue (flush re-arms the flow definition): with a full queue
 * the copy of the flow definition that upipe_qsink_input sends in front of the
 * data is parked in the hold list like a buffer, flow_def_sent already true.
 * upipe_flush frees the hold list - that copy included - and leaves the flag
 * set: the next buffer crosses the queue without its flow definition and is
 * delivered under the previous one.
 * sequence (queue of 1): flow def 1000, buffer 0 (stalls), flow def 2000,
 * buffer 1 (held behind the held copy of 2000), flush, buffer 2.
 * Expected: buffer 2 arrives under octetrate 2000. */
#undef NDEBUG

#include "upipe/uprobe.h"
#include "upipe/uprobe_stdio.h"
#include "upipe/uprobe_prefix.h"
#include "upipe/uprobe_upump_mgr.h"
#include "upipe/uprobe_uref_mgr.h"
#include "upipe/umem.h"
#include "upipe/umem_alloc.h"
#include "upipe/udict.h"
#include "upipe/udict_inline.h"
#include "upipe/uref.h"
#include "upipe/uref_flow.h"
#include "upipe/uref_block_flow.h"
#include "upipe/uref_std.h"
#include "upipe/upump.h"
#include "upump-ev/upump_ev.h"
#include "upipe/upipe.h"
#include "upipe-modules/upipe_queue_source.h"
#include "upipe-modules/upipe_queue_sink.h"

#include <stdio.h>
#include <stdlib.h>
#include <inttypes.h>
#include <assert.h>

#define UDICT_POOL_DEPTH 0
#define UREF_POOL_DEPTH 0
#define UPUMP_POOL 0
#define UPUMP_BLOCKER_POOL 0
#define QUEUE_LENGTH 6
#define NB_BUFS 2

UREF_ATTR_SMALL_UNSIGNED(test, test, "x.test", test)

static const uint64_t expected_rate[NB_BUFS] = { 1000, 2000 };
static uint64_t current_rate = 0; /* octetrate of the last flow def received */
static unsigned int nb_flow_defs = 0;
static uint64_t seen_rate[NB_BUFS];
static unsigned int nb_bufs = 0;
static bool source_ended = false;

static int catch(struct uprobe *uprobe, struct upipe *upipe,
                 int event, va_list args)
{
    switch (event) {
        case UPROBE_SOURCE_END:
            source_ended = true;
            upipe_release(upipe);
            break;
        default:
            break;
    }
    return UBASE_ERR_NONE;
}

static struct upipe *test_alloc(struct upipe_mgr *mgr, struct uprobe *uprobe,
                                uint32_t signature, va_list args)
{
    struct upipe *upipe = malloc(sizeof(struct upipe));
    assert(upipe != NULL);
    upipe_init(upipe, mgr, uprobe);
    upipe_throw_ready(upipe);
    return upipe;
}

static void test_input(struct upipe *upipe, struct uref *uref,
                       struct upump **upump_p)
{
    uint8_t idx;
    ubase_assert(uref_test_get_test(uref, &idx));
    printf("sink: buffer %"PRIu8" received under octetrate %"PRIu64"\n",
           idx, current_rate);
    if (idx != nb_bufs) {
        printf("FAIL: buffer %"PRIu8" out of order\n", idx);
        exit(1);
    }
    assert(nb_bufs < NB_BUFS);
    seen_rate[nb_bufs++] = current_rate;
    uref_free(uref);
}

static int test_control(struct upipe *upipe, int command, va_list args)
{
    switch (command) {
        case UPIPE_SET_FLOW_DEF: {
            struct uref *flow_def = va_arg(args, struct uref *);
            current_rate = 0;
            uref_block_flow_get_octetrate(flow_def, &current_rate);
            nb_flow_defs++;
            printf("sink: flow def received, octetrate %"PRIu64"\n",
                   current_rate);
            return UBASE_ERR_NONE;
        }
        case UPIPE_REGISTER_REQUEST:
        case UPIPE_UNREGISTER_REQUEST:
            return UBASE_ERR_NONE;
        default:
            return UBASE_ERR_UNHANDLED;
    }
}

static struct upipe_mgr test_mgr = {
    .refcount = NULL,
    .upipe_alloc = test_alloc,
    .upipe_input = test_input,
    .upipe_control = test_control
};

int main(int argc, char *argv[])
{
    setvbuf(stdout, NULL, _IONBF, 0);
    struct upump_mgr *upump_mgr = upump_ev_mgr_alloc_default(UPUMP_POOL, UPUMP_BLOCKER_POOL);
    struct umem_mgr *umem_mgr = umem_alloc_mgr_alloc();
    struct udict_mgr *udict_mgr = udict_inline_mgr_alloc(UDICT_POOL_DEPTH, umem_mgr, -1, -1);
    struct uref_mgr *uref_mgr = uref_std_mgr_alloc(UREF_POOL_DEPTH, udict_mgr, 0);
    struct uprobe uprobe;
    uprobe_init(&uprobe, catch, NULL);
    struct uprobe *logger = uprobe_stdio_alloc(&uprobe, stdout, UPROBE_LOG_WARNING);
    logger = uprobe_uref_mgr_alloc(logger, uref_mgr);
    logger = uprobe_upump_mgr_alloc(logger, upump_mgr);
    struct upipe *sink = upipe_void_alloc(&test_mgr, uprobe_pfx_alloc(uprobe_use(logger), UPROBE_LOG_WARNING, "sink"));
    struct upipe *qsrc = upipe_qsrc_alloc(upipe_qsrc_mgr_alloc(), uprobe_pfx_alloc(uprobe_use(logger), UPROBE_LOG_WARNING, "qsrc"), 1);
    assert(qsrc != NULL);
    ubase_assert(upipe_set_output(qsrc, sink));
    struct upipe *qsink = upipe_qsink_alloc(upipe_qsink_mgr_alloc(), uprobe_pfx_alloc(uprobe_use(logger), UPROBE_LOG_WARNING, "qsink"), qsrc);
    assert(qsink != NULL);

    static const uint64_t rate[3] = { 1000, 2000, 2000 };
    for (unsigned int i = 0; i < 3; i++) {
        if (i < 2) {
            struct uref *flow_def = uref_block_flow_alloc_def(uref_mgr, "foo.");
            ubase_assert(uref_block_flow_set_octetrate(flow_def, rate[i]));
            printf("main: set_flow_def octetrate %"PRIu64"\n", rate[i]);
            ubase_assert(upipe_set_flow_def(qsink, flow_def));
            uref_free(flow_def);
        } else {
            printf("main: flush\n");
            ubase_assert(upipe_flush(qsink));
        }
        struct uref *uref = uref_alloc(uref_mgr);
        ubase_assert(uref_test_set_test(uref, i == 2 ? 0 : 9));     /* only the last buffer is expected downstream */
        printf("main: input buffer %u\n", i);
        upipe_input(qsink, uref, NULL);
    }
    upipe_release(qsink);
    upump_mgr_run(upump_mgr, NULL);

    int ret = 0;
    if (nb_bufs != 1) {
        printf("FAIL: %u buffers received instead of 1 (two were flushed)\n", nb_bufs);
        ret = 1;
    } else if (seen_rate[0] != 2000) {
        printf("FAIL: the buffer input after the flush arrived under octetrate %"PRIu64", the definition in force is 2000 (%u flow defs crossed)\n", seen_rate[0], nb_flow_defs);
        ret = 1;
    }
    printf(ret ? "FAIL\n" : "OK\n");
    return ret;
}
