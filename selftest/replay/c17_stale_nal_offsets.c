/* replay for C17 R-nal-attrs: the framers record the NAL offsets of the access
 * unit being assembled as attributes (h26x.n[k]) of the head buffer next_uref,
 * and never remove them.  When several access units arrive in one input buffer
 * the head buffer is not rotated between them, so an access unit with fewer NAL
 * units than an earlier one is output with the earlier unit's higher-numbered
 * offsets still attached (offsets beyond its own size): the attributes depend
 * on how the input was cut into buffers.
 * Expected: each access unit carries exactly (its NAL count - 1) offsets. */

#undef NDEBUG

#include "upipe/uprobe.h"
#include "upipe/uprobe_uref_mgr.h"
#include "upipe/uprobe_ubuf_mem.h"
#include "upipe/umem.h"
#include "upipe/umem_alloc.h"
#include "upipe/udict.h"
#include "upipe/udict_inline.h"
#include "upipe/uref.h"
#include "upipe/uref_std.h"
#include "upipe/uref_flow.h"
#include "upipe/uref_block.h"
#include "upipe/uref_block_flow.h"
#include "upipe/ubuf.h"
#include "upipe/ubuf_block_mem.h"
#include "upipe/upipe.h"
#include "upipe-framers/upipe_h264_framer.h"
#include "upipe-framers/uref_h26x.h"
#include "upipe-framers/uref_h26x_flow.h"

#include <stdlib.h>
#include <stdint.h>
#include <stdbool.h>
#include <stdio.h>
#include <string.h>
#include <assert.h>

/*
 * stream construction
 */
static const uint8_t aud[] = { 0x09, 0x10 };
static const uint8_t sps[] = {
    0x67, 0x64, 0x00, 0x15, 0xac, 0xf1, 0x93, 0x60, 0x22, 0x00, 0x00, 0x03,
    0x00, 0x02, 0x00, 0x00, 0x03, 0x00, 0x65, 0xc0, 0x40, 0x0c, 0x34, 0x00,
    0x30, 0xd5, 0x22, 0x0c, 0x05
};
static const uint8_t pps[] = { 0x68, 0xfe, 0x3c, 0xb0 };
static const uint8_t sei_bp[] = {
    0x06, 0x00, 0x05, 0x93, 0xc8, 0x10, 0x46, 0x57, 0x80
};
static const uint8_t sei_pt[] = { 0x06, 0x01, 0x02, 0x00, 0x19, 0x80 };
/* beginning of an IDR slice */
static const uint8_t idr[] = {
    0x65, 0x88, 0x82, 0x08, 0x13, 0xff, 0xf9, 0xe9, 0x63, 0xde, 0x24, 0x12,
    0x76, 0xfc, 0x03, 0xea, 0x24, 0x90, 0x61, 0x25, 0x04, 0x8c, 0xc5, 0xc7,
    0xaa, 0x6d, 0x99, 0xed, 0x4c, 0x71, 0x73, 0x3c
};

#define NB_AU 5
#define NALS_PER_AU 6
#define MAX_STREAM 2048

/* start code size of each NAL of each access unit */
static const unsigned int startcodes[NB_AU][NALS_PER_AU] = {
    { 4, 4, 4, 4, 3, 3 },
    { 4, 4, 4, 4, 3, 4 },
    { 4, 4, 3, 3, 3, 3 },
    { 3, 4, 4, 3, 3, 3 },
    { 4, 3, 4, 4, 4, 4 },
};

static uint8_t stream[MAX_STREAM];
static size_t stream_size = 0;
/* reference cut */
static size_t au_start[NB_AU + 1];
static size_t nal_start[NB_AU][NALS_PER_AU];

static void put_nal(unsigned int au, unsigned int nal,
                    const uint8_t *payload, size_t size, unsigned int filler)
{
    nal_start[au][nal] = stream_size - au_start[au];
    if (startcodes[au][nal] == 4)
        stream[stream_size++] = 0;
    stream[stream_size++] = 0;
    stream[stream_size++] = 0;
    stream[stream_size++] = 1;
    memcpy(stream + stream_size, payload, size);
    stream_size += size;
    /* slice data: no zero octet, last octet is not zero */
    for (unsigned int i = 0; i < filler; i++)
        stream[stream_size++] = 0x11 + ((au * 29 + i * 7) % 0xe1);
    if (filler)
        stream[stream_size++] = 0x80;
    assert(stream_size <= MAX_STREAM);
}

static unsigned int nals_of[NB_AU];
static void build_stream(void)
{
    for (unsigned int au = 0; au < NB_AU; au++) {
        au_start[au] = stream_size;
        if (au % 2 == 0) {
            put_nal(au, 0, aud, sizeof(aud), 0);
            put_nal(au, 1, sps, sizeof(sps), 0);
            put_nal(au, 2, pps, sizeof(pps), 0);
            put_nal(au, 3, sei_bp, sizeof(sei_bp), 0);
            put_nal(au, 4, sei_pt, sizeof(sei_pt), 0);
            put_nal(au, 5, idr, sizeof(idr), 20 + au * 9);
            nals_of[au] = 6;
        } else {
            put_nal(au, 0, aud, sizeof(aud), 0);
            put_nal(au, 1, sps, sizeof(sps), 0);
            put_nal(au, 2, pps, sizeof(pps), 0);
            put_nal(au, 3, idr, sizeof(idr), 20 + au * 9);
            nals_of[au] = 4;
        }
    }
    au_start[NB_AU] = stream_size;
}

/*
 * output checking
 */
static unsigned int nb_output;
static bool run_failed;
static char run_name[64];

static void fail(const char *msg, unsigned int au)
{
    if (!run_failed)
        printf("FAIL [%s] access unit %u: %s\n", run_name, au, msg);
    run_failed = true;
}

static void check_au(struct uref *uref)
{
    unsigned int au = nb_output++;
    if (au >= NB_AU) {
        fail("unexpected extra access unit", au);
        return;
    }

    size_t size = 0;
    ubase_assert(uref_block_size(uref, &size));
    size_t expected_size = au_start[au + 1] - au_start[au];
    if (size != expected_size) {
        char msg[128];
        snprintf(msg, sizeof(msg), "size is %zu, expected %zu (stream "
                 "offsets %zu to %zu)", size, expected_size, au_start[au],
                 au_start[au + 1]);
        fail(msg, au);
        return;
    }
    uint8_t buf[MAX_STREAM];
    ubase_assert(uref_block_extract(uref, 0, size, buf));
    if (memcmp(buf, stream + au_start[au], size)) {
        fail("octets differ from the stream", au);
        return;
    }

    {
        /* the offset of the NAL unit that opened the next access unit (== size) may be present; anything else beyond
         * the unit's own NAL count is stale */
        uint64_t extra;
        for (unsigned int k = nals_of[au] - 1; k < nals_of[au] + 8; k++) {
            if (!ubase_check(uref_h26x_get_nal_offset(uref, &extra, k)))
                continue;
            if (k == nals_of[au] - 1 && extra == size)
                continue;
            char msg[160];
            snprintf(msg, sizeof(msg), "carries a NAL offset #%u (= %u) although it holds %u NAL units and %zu octets",
                     k, (unsigned int)extra, nals_of[au], size);
            fail(msg, au);
            return;
        }
    }
    for (unsigned int nal = 1; nal < nals_of[au]; nal++) {
        uint64_t offset;
        if (!ubase_check(uref_h26x_get_nal_offset(uref, &offset, nal - 1))) {
            fail("missing NAL offset", au);
            return;
        }
        if (offset != nal_start[au][nal]) {
            char msg[128];
            snprintf(msg, sizeof(msg), "NAL %u starts at %u, expected %zu",
                     nal, (unsigned int)offset, nal_start[au][nal]);
            fail(msg, au);
            return;
        }
    }
}

/*
 * pipeline
 */
static int catch(struct uprobe *uprobe, struct upipe *upipe,
                 int event, va_list args)
{
    switch (event) {
        case UPROBE_FATAL:
        case UPROBE_ERROR:
            fail("the framer threw an error", nb_output);
            break;
        default:
            break;
    }
    return UBASE_ERR_NONE;
}

static struct upipe *sink_alloc(struct upipe_mgr *mgr, struct uprobe *uprobe,
                                uint32_t signature, va_list args)
{
    struct upipe *upipe = malloc(sizeof(struct upipe));
    assert(upipe != NULL);
    upipe_init(upipe, mgr, uprobe);
    return upipe;
}

static void sink_input(struct upipe *upipe, struct uref *uref,
                       struct upump **upump_p)
{
    assert(uref != NULL);
    check_au(uref);
    uref_free(uref);
}

static int sink_control(struct upipe *upipe, int command, va_list args)
{
    switch (command) {
        case UPIPE_SET_FLOW_DEF:
            return UBASE_ERR_NONE;
        case UPIPE_REGISTER_REQUEST: {
            struct urequest *urequest = va_arg(args, struct urequest *);
            if (urequest->type == UREQUEST_FLOW_FORMAT) {
                struct uref *uref = uref_dup(urequest->uref);
                assert(uref != NULL);
                uref_flow_delete_global(uref);
                ubase_assert(uref_h26x_flow_set_encaps(uref,
                            UREF_H26X_ENCAPS_ANNEXB));
                return urequest_provide_flow_format(urequest, uref);
            }
            return upipe_throw_provide_request(upipe, urequest);
        }
        case UPIPE_UNREGISTER_REQUEST:
            return UBASE_ERR_NONE;
        default:
            return UBASE_ERR_UNHANDLED;
    }
}

static void sink_free(struct upipe *upipe)
{
    upipe_clean(upipe);
    free(upipe);
}

static struct upipe_mgr sink_mgr = {
    .refcount = NULL,
    .upipe_alloc = sink_alloc,
    .upipe_input = sink_input,
    .upipe_control = sink_control
};

static struct uref_mgr *uref_mgr;
static struct ubuf_mgr *ubuf_mgr;
static struct uprobe *uprobe;
static struct upipe_mgr *h264f_mgr;
static struct upipe *sink;
static unsigned int runs = 0, failed_runs = 0;

/* feeds the stream cut at the given positions (ascending, terminated by
 * stream_size) */
static void run(const size_t *cuts, unsigned int nb_cuts)
{
    nb_output = 0;
    run_failed = false;
    runs++;

    struct uref *flow_def = uref_block_flow_alloc_def(uref_mgr, "h264.pic.");
    assert(flow_def != NULL);
    ubase_assert(uref_h26x_flow_set_encaps(flow_def, UREF_H26X_ENCAPS_ANNEXB));
    struct upipe *h264f = upipe_void_alloc(h264f_mgr, uprobe_use(uprobe));
    assert(h264f != NULL);
    ubase_assert(upipe_set_output(h264f, sink));
    ubase_assert(upipe_set_flow_def(h264f, flow_def));
    uref_free(flow_def);

    size_t pos = 0;
    for (unsigned int i = 0; i < nb_cuts; i++) {
        assert(cuts[i] > pos && cuts[i] <= stream_size);
        struct ubuf *ubuf = ubuf_block_alloc_from_opaque(ubuf_mgr,
                stream + pos, cuts[i] - pos);
        assert(ubuf != NULL);
        struct uref *uref = uref_alloc(uref_mgr);
        assert(uref != NULL);
        uref_attach_ubuf(uref, ubuf);
        upipe_input(h264f, uref, NULL);
        pos = cuts[i];
    }
    assert(pos == stream_size);
    /* flushes the last access unit */
    upipe_release(h264f);

    if (!run_failed && nb_output != NB_AU)
        fail("missing access units at the end", nb_output);
    if (run_failed)
        failed_runs++;
}

int main(int argc, char **argv)
{
    build_stream();

    struct umem_mgr *umem_mgr = umem_alloc_mgr_alloc();
    assert(umem_mgr != NULL);
    struct udict_mgr *udict_mgr = udict_inline_mgr_alloc(0, umem_mgr, -1, -1);
    assert(udict_mgr != NULL);
    uref_mgr = uref_std_mgr_alloc(0, udict_mgr, 0);
    assert(uref_mgr != NULL);
    ubuf_mgr = ubuf_block_mem_mgr_alloc(0, 0, umem_mgr, 0, 0, -1, 0);
    assert(ubuf_mgr != NULL);

    struct uprobe uprobe_s;
    uprobe_init(&uprobe_s, catch, NULL);
    uprobe = uprobe_uref_mgr_alloc(&uprobe_s, uref_mgr);
    assert(uprobe != NULL);
    uprobe = uprobe_ubuf_mem_alloc(uprobe, umem_mgr, 0, 0);
    assert(uprobe != NULL);

    sink = upipe_void_alloc(&sink_mgr, uprobe_use(uprobe));
    assert(sink != NULL);
    h264f_mgr = upipe_h264f_mgr_alloc();
    assert(h264f_mgr != NULL);

    /* one buffer */
    size_t cuts[MAX_STREAM];
    cuts[0] = stream_size;
    snprintf(run_name, sizeof(run_name), "one buffer");
    run(cuts, 1);

    /* two buffers */
    for (size_t cut = 1; cut < stream_size; cut++) {
        cuts[0] = cut;
        cuts[1] = stream_size;
        snprintf(run_name, sizeof(run_name), "two buffers cut at %zu", cut);
        run(cuts, 2);
    }

    /* constant sizes */
    static const size_t sizes[] = { 1, 2, 3, 4, 5, 7, 16, 61 };
    for (unsigned int i = 0; i < sizeof(sizes) / sizeof(sizes[0]); i++) {
        unsigned int nb = 0;
        for (size_t pos = sizes[i]; pos < stream_size; pos += sizes[i])
            cuts[nb++] = pos;
        cuts[nb++] = stream_size;
        snprintf(run_name, sizeof(run_name), "buffers of %zu octets",
                 sizes[i]);
        run(cuts, nb);
    }

    sink_free(sink);
    upipe_mgr_release(h264f_mgr);
    uprobe_release(uprobe);
    uprobe_clean(&uprobe_s);
    uref_mgr_release(uref_mgr);
    ubuf_mgr_release(ubuf_mgr);
    udict_mgr_release(udict_mgr);
    umem_mgr_release(umem_mgr);

    printf("%u splittings of a %zu octet stream, %u failed\n", runs,
           stream_size, failed_runs);
    return failed_runs ? 1 : 0;
}
