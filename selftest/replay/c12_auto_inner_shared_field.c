/* replay for C12 R-bin-fields: upipe_auto_inner declares its bin input and
 * its bin output on the same structure member (UPIPE_HELPER_BIN_INPUT(...,
 * inner, ...) and UPIPE_HELPER_BIN_OUTPUT(..., inner, ...)).  set_flow_def
 * calls store_bin_output(inner) first, which overwrites the member, so the
 * store_bin_input that follows "withdraws" the listed requests from the NEW
 * inner pipe (which never saw them) instead of the old one:
 *  - a request registered before the first flow definition trips
 *    assert(urequest->registered) in upipe_unregister_request (or, with
 *    NDEBUG, sends UNREGISTER to a pipe that never got the REGISTER);
 *  - when the inner pipe is replaced, the old one never receives the
 *    UNREGISTER of the requests it holds.
 * Expected: every inner pipe sees as many UNREGISTER as REGISTER, and never an
 * UNREGISTER for a request it did not get. */
#undef NDEBUG
#include "upipe/umem.h"
#include "upipe/umem_alloc.h"
#include "upipe/udict.h"
#include "upipe/udict_inline.h"
#include "upipe/uref.h"
#include "upipe/uref_std.h"
#include "upipe/uref_flow.h"
#include "upipe/uprobe.h"
#include "upipe/uprobe_prefix.h"
#include "upipe/uprobe_uref_mgr.h"
#include "upipe/urequest.h"
#include "upipe/upipe.h"
#include "upipe/upipe_helper_upipe.h"
#include "upipe/upipe_helper_urefcount.h"
#include "upipe/upipe_helper_void.h"
#include "upipe-modules/upipe_auto_inner.h"
#include <stdio.h>
#include <signal.h>
#include <assert.h>

static int reg[2], unreg[2], bad_unreg[2];
static struct urequest *seen[2];

struct sink { struct upipe upipe; struct urefcount urefcount; int id; };
UPIPE_HELPER_UPIPE(sink, upipe, 0);
UPIPE_HELPER_UREFCOUNT(sink, urefcount, sink_free);
UPIPE_HELPER_VOID(sink);
static struct upipe_mgr sink_mgr[2];

static struct upipe *sink_alloc(struct upipe_mgr *mgr, struct uprobe *uprobe,
                                uint32_t signature, va_list args)
{
    struct upipe *upipe = sink_alloc_void(mgr, uprobe, signature, args);
    if (!upipe) return NULL;
    sink_init_urefcount(upipe);
    sink_from_upipe(upipe)->id = mgr == &sink_mgr[1];
    upipe_throw_ready(upipe);
    return upipe;
}
static void sink_free(struct upipe *upipe)
{
    upipe_throw_dead(upipe);
    sink_clean_urefcount(upipe);
    sink_free_void(upipe);
}
static void sink_input(struct upipe *upipe, struct uref *uref, struct upump **p)
{
    uref_free(uref);
}
static int sink_control(struct upipe *upipe, int command, va_list args)
{
    int id = sink_from_upipe(upipe)->id;
    switch (command) {
        case UPIPE_REGISTER_REQUEST:
            seen[id] = va_arg(args, struct urequest *);
            reg[id]++;
            return UBASE_ERR_NONE; /* answered later */
        case UPIPE_UNREGISTER_REQUEST: {
            struct urequest *r = va_arg(args, struct urequest *);
            if (seen[id] != r) bad_unreg[id]++;
            else { unreg[id]++; seen[id] = NULL; }
            return UBASE_ERR_NONE;
        }
        case UPIPE_SET_FLOW_DEF: {
            struct uref *flow_def = va_arg(args, struct uref *);
            return uref_flow_match_def(flow_def, id ? "type2." : "type1.");
        }
    }
    return UBASE_ERR_UNHANDLED;
}
static struct upipe_mgr sink_mgr[2] = {
    { .refcount = NULL, .signature = 0, .upipe_alloc = sink_alloc,
      .upipe_input = sink_input, .upipe_control = sink_control },
    { .refcount = NULL, .signature = 0, .upipe_alloc = sink_alloc,
      .upipe_input = sink_input, .upipe_control = sink_control },
};

static int catch(struct uprobe *uprobe, struct upipe *upipe, int event, va_list args)
{
    return UBASE_ERR_NONE;
}
static int provided(struct urequest *urequest, va_list args) { return UBASE_ERR_NONE; }
static void on_abort(int sig)
{
    printf("FAIL: assertion failed inside the library (upipe_unregister_request on a request the inner pipe never received)\n");
    fflush(stdout);
    _exit(1);
}

static void set_def(struct uref_mgr *uref_mgr, struct upipe *upipe, const char *def)
{
    struct uref *flow_def = uref_alloc_control(uref_mgr);
    assert(flow_def);
    ubase_assert(uref_flow_set_def(flow_def, def));
    ubase_assert(upipe_set_flow_def(upipe, flow_def));
    uref_free(flow_def);
}

int main(int argc, char **argv)
{
    int early = argc > 1;   /* any argument: register before the first flow definition */
    signal(SIGABRT, on_abort);
    struct umem_mgr *umem_mgr = umem_alloc_mgr_alloc();
    struct udict_mgr *udict_mgr = udict_inline_mgr_alloc(0, umem_mgr, -1, -1);
    struct uref_mgr *uref_mgr = uref_std_mgr_alloc(0, udict_mgr, 0);
    struct uprobe uprobe;
    uprobe_init(&uprobe, catch, NULL);

    struct upipe_mgr *mgr = upipe_autoin_mgr_alloc();
    ubase_assert(upipe_autoin_mgr_add_mgr(mgr, "sink1", &sink_mgr[0]));
    ubase_assert(upipe_autoin_mgr_add_mgr(mgr, "sink2", &sink_mgr[1]));
    struct uref *flow_def = uref_alloc_control(uref_mgr);
    ubase_assert(uref_flow_set_def(flow_def, "void."));
    struct upipe *upipe = upipe_flow_alloc(mgr, uprobe_use(&uprobe), flow_def);
    assert(upipe);
    uref_free(flow_def);

    struct urequest request;
    urequest_init_uref_mgr(&request, provided, NULL);
    if (early)
        upipe_register_request(upipe, &request);
    set_def(uref_mgr, upipe, "type1.");
    if (!early)
        upipe_register_request(upipe, &request);
    set_def(uref_mgr, upipe, "type2.");
    upipe_unregister_request(upipe, &request);
    urequest_clean(&request);
    upipe_release(upipe);
    upipe_mgr_release(mgr);

    printf("inner 1: %d register, %d unregister, %d unregister of unknown requests\n", reg[0], unreg[0], bad_unreg[0]);
    printf("inner 2: %d register, %d unregister, %d unregister of unknown requests\n", reg[1], unreg[1], bad_unreg[1]);
    int ok = reg[0] == unreg[0] && reg[1] == unreg[1] && !bad_unreg[0] && !bad_unreg[1] && reg[0] && reg[1];
    printf(ok ? "OK\n" : "FAIL\n");
    uref_mgr_release(uref_mgr);
    udict_mgr_release(udict_mgr);
    umem_mgr_release(umem_mgr);
    return ok ? 0 : 1;
}
