/* replay for C14 R-progress upipe_chunk_stream_flush:loop-without-progress:
 * a chunker holding fewer octets than its alignment never returns from release */
#include "common.h"
#include "upipe-modules/upipe_chunk_stream.h"
#include <signal.h>
#include <unistd.h>
static void on_alarm(int s) { const char m[] = "HANG: upipe_release() did not return within 3 s\n"; write(1, m, sizeof(m) - 1); _exit(1); }
int main(void)
{
    setup();
    signal(SIGALRM, on_alarm);
    struct upipe *sink = upipe_void_alloc(&sink_mgr, uprobe_use(&uprobe_root));
    struct upipe_mgr *mgr = upipe_chunk_stream_mgr_alloc();
    struct upipe *p = upipe_void_alloc(mgr, uprobe_use(&uprobe_root));
    struct uref *fd = uref_block_flow_alloc_def(uref_mgr, "foo.");
    ubase_assert(upipe_set_flow_def(p, fd));
    uref_free(fd);
    ubase_assert(upipe_set_output(p, sink));
    ubase_assert(upipe_chunk_stream_set_mtu(p, 8, 4));
    struct uref *uref = uref_block_alloc(uref_mgr, block_mgr, 10);   /* 8 go out, 2 (< align) stay */
    upipe_input(p, uref, NULL);
    alarm(3);
    upipe_release(p);
    alarm(0);
    printf("released; sink got %u unit(s), live urefs %u\n", sink_count, live_urefs());
    return live_urefs() == 0 ? 0 : 1;
}
