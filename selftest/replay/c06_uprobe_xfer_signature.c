/* replay for C06 R-va-copy: uprobe_xfer_throw makes a copy of its argument
 * list to peek at the signature of a local event, then reads the signature
 * from the ORIGINAL list (the copy is never read).  On a match it skips "the
 * signature" a second time - which is the event's real argument - and
 * forwards whatever follows; on a mismatch it hands the next probe a list
 * whose signature is already consumed.
 * Expected: the UPROBE_XFER_UNSIGNED_LONG_LOCAL event carries the value thrown. */
#undef NDEBUG
#include "upipe/ubase.h"
#include "upipe/uprobe.h"
#include "upipe/uprobe_transfer.h"
#include "upipe/upipe.h"
#include <stdio.h>
#include <stdlib.h>
#include <assert.h>

#define MY_SIGNATURE UBASE_FOURCC('t','e','s','t')
#define MY_EVENT (UPROBE_LOCAL + 1)
#define OTHER_SIGNATURE UBASE_FOURCC('o','t','h','r')

static unsigned long got = 0;
static int nb_xfer = 0, nb_raw = 0;
static uint32_t raw_sig = 0;
static unsigned long raw_arg = 0;

static int catch(struct uprobe *uprobe, struct upipe *upipe, int event, va_list args)
{
    if (event == UPROBE_XFER_UNSIGNED_LONG_LOCAL) {
        UBASE_SIGNATURE_CHECK(args, UPROBE_XFER_SIGNATURE);
        int ev = va_arg(args, int);
        uint32_t sig = va_arg(args, uint32_t);
        got = va_arg(args, unsigned long);
        assert(ev == MY_EVENT && sig == MY_SIGNATURE);
        nb_xfer++;
    } else if (event == MY_EVENT) {
        raw_sig = va_arg(args, uint32_t);
        raw_arg = va_arg(args, unsigned long);
        nb_raw++;
    }
    return UBASE_ERR_NONE;
}

int main(void)
{
    struct uprobe uprobe;
    uprobe_init(&uprobe, catch, NULL);
    struct uprobe *xfer = uprobe_xfer_alloc(uprobe_use(&uprobe));
    assert(xfer != NULL);
    ubase_assert(uprobe_xfer_add(xfer, UPROBE_XFER_UNSIGNED_LONG_LOCAL, MY_EVENT, MY_SIGNATURE));

    struct upipe upipe;            /* a bare pipe to throw from */
    struct upipe_mgr mgr = { .refcount = NULL };
    upipe_init(&upipe, &mgr, xfer);

    upipe_throw(&upipe, MY_EVENT, MY_SIGNATURE, 42UL);
    printf("matching signature: %d transferred event(s), value %lu\n", nb_xfer, got);
    upipe_throw(&upipe, MY_EVENT, OTHER_SIGNATURE, 43UL);
    printf("other signature: %d raw event(s) passed on, signature %#x value %lu\n", nb_raw, raw_sig, raw_arg);
    int bad = nb_xfer != 1 || got != 42 || nb_raw != 1 || raw_sig != OTHER_SIGNATURE || raw_arg != 43;
    printf(bad ? "FAIL\n" : "OK\n");
    upipe_clean(&upipe);
    uprobe_clean(&uprobe);
    return bad;
}
