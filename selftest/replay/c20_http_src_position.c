/* replay for C20 R-getset-agree upipe_http_src_control:UPIPE_SRC_GET_POSITION
 * (getter reports upipe_http_src.position, setter stores upipe_http_src.range):
 * an accepted set_position(1000) is not what get_position reports */
#include <upipe/uprobe.h>
#include <upipe/upipe.h>
#include <upipe-modules/upipe_http_source.h>
#include <stdio.h>
#include <assert.h>
static int catch(struct uprobe *uprobe, struct upipe *upipe, int event, va_list args)
{ return UBASE_ERR_NONE; }
int main(void)
{
    struct uprobe uprobe;
    uprobe_init(&uprobe, catch, NULL);
    struct upipe_mgr *mgr = upipe_http_src_mgr_alloc();
    assert(mgr);
    struct upipe *src = upipe_void_alloc(mgr, uprobe_use(&uprobe));
    assert(src);
    int err = upipe_src_set_position(src, 1000);
    uint64_t pos = 99;
    int err2 = upipe_control(src, UPIPE_SRC_GET_POSITION, &pos);
    printf("set_position(1000) -> %d, get_position -> %d, position %llu\n", err, err2, (unsigned long long)pos);
    upipe_release(src);
    upipe_mgr_release(mgr);
    return (ubase_check(err) && ubase_check(err2) && pos == 1000) ? 0 : 1;
}
