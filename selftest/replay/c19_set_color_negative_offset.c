/* replay for C19: ubuf_pic_plane_set_color(-2, -1, -1, -1, ...) - an offset counted
 * from the end with "up to the end" sizes.  ubuf_pic_plane_write normalises the
 * negative offsets (window = last 2 columns x last line), but set_color then
 * computes the width to fill as width - hoffset = width + 2 and the height as
 * height + 1: it writes far outside the window it mapped (other columns, other
 * lines, past the end of the plane).
 * Expected: only the 2 x 1 pixels of the window change. */
#undef NDEBUG
#include "upipe/umem.h"
#include "upipe/umem_alloc.h"
#include "upipe/ubuf.h"
#include "upipe/ubuf_pic.h"
#include "upipe/ubuf_pic_mem.h"
#include <stdio.h>
#include <string.h>
#include <assert.h>

int main(void)
{
    struct umem_mgr *umem_mgr = umem_alloc_mgr_alloc();
    struct ubuf_mgr *mgr = ubuf_pic_mem_mgr_alloc(0, 0, umem_mgr, 1, 0, 0, 0, 0, 0, 0);
    assert(mgr != NULL);
    ubase_assert(ubuf_pic_mem_mgr_add_plane(mgr, "y8", 1, 1, 1));
    const int W = 8, H = 4;
    /* two pictures so that an overflow of the first lands somewhere we can see under valgrind too */
    struct ubuf *ubuf = ubuf_pic_alloc(mgr, W, H);
    assert(ubuf != NULL);
    uint8_t *buf;
    size_t stride;
    ubase_assert(ubuf_pic_plane_size(ubuf, "y8", &stride, NULL, NULL, NULL));
    ubase_assert(ubuf_pic_plane_write(ubuf, "y8", 0, 0, -1, -1, &buf));
    for (int y = 0; y < H; y++)
        memset(buf + y * stride, 0x11, W);
    ubase_assert(ubuf_pic_plane_unmap(ubuf, "y8", 0, 0, -1, -1));

    const uint8_t pattern[] = { 0xee };
    int err = ubuf_pic_plane_set_color(ubuf, "y8", -2, -1, -1, -1, pattern, 1);
    printf("set_color(-2, -1, -1, -1) returned %d\n", err);

    const uint8_t *r;
    ubase_assert(ubuf_pic_plane_read(ubuf, "y8", 0, 0, -1, -1, &r));
    int bad = 0;
    for (int y = 0; y < H; y++)
        for (int x = 0; x < W; x++) {
            int in_window = ubase_check(err) && x >= W - 2 && y >= H - 1;
            uint8_t want = in_window ? 0xee : 0x11;
            if (r[y * stride + x] != want) {
                if (!bad)
                    printf("FAIL: pixel (%d,%d) is %#x, expected %#x (window is columns %d..%d of line %d)\n",
                           x, y, r[y * stride + x], want, W - 2, W - 1, H - 1);
                bad++;
            }
        }
    ubase_assert(ubuf_pic_plane_unmap(ubuf, "y8", 0, 0, -1, -1));
    printf("%d pixel(s) outside the window changed or inside it unchanged\n", bad);
    ubuf_free(ubuf);
    ubuf_mgr_release(mgr);
    umem_mgr_release(umem_mgr);
    return bad ? 1 : 0;
}
