/* shared scaffolding for the by-hand replays */
#undef NDEBUG
#include "upipe/uprobe.h"
#include "upipe/uprobe_stdio.h"
#include "upipe/umem.h"
#include "upipe/umem_alloc.h"
#include "upipe/udict.h"
#include "upipe/udict_inline.h"
#include "upipe/uref.h"
#include "upipe/uref_std.h"
#include "upipe/uref_flow.h"
#include "upipe/uref_block.h"
#include "upipe/uref_block_flow.h"
#include "upipe/ubuf.h"
#include "upipe/ubuf_block_mem.h"
#include "upipe/upipe.h"
#include <stdio.h>
#include <stdlib.h>
#include <string.h>
#include <assert.h>

static struct umem_mgr *umem_mgr;
static struct udict_mgr *udict_mgr;
static struct uref_mgr *uref_mgr;
static struct ubuf_mgr *block_mgr;
static struct uprobe uprobe_root;

static int catch_all(struct uprobe *uprobe, struct upipe *upipe, int event, va_list args)
{ return UBASE_ERR_NONE; }

static void setup(void)
{
    umem_mgr = umem_alloc_mgr_alloc();
    udict_mgr = udict_inline_mgr_alloc(0, umem_mgr, -1, -1);
    uref_mgr = uref_std_mgr_alloc(0, udict_mgr, 0);
    block_mgr = ubuf_block_mem_mgr_alloc(0, 0, umem_mgr, 0, 0, 0, 0);
    uprobe_init(&uprobe_root, catch_all, NULL);
}
static unsigned live_urefs(void) { return uatomic_load(&uref_mgr->refcount->refcount) - 1; }

/* a sink that frees what it gets */
static unsigned sink_count;
static struct upipe *sink_alloc(struct upipe_mgr *mgr, struct uprobe *uprobe, uint32_t sig, va_list args)
{ struct upipe *u = malloc(sizeof(*u)); upipe_init(u, mgr, uprobe); upipe_throw_ready(u); return u; }
static void sink_input(struct upipe *upipe, struct uref *uref, struct upump **upump_p)
{ sink_count++; uref_free(uref); }
static int sink_control(struct upipe *upipe, int command, va_list args)
{
    switch (command) {
    case UPIPE_SET_FLOW_DEF: return UBASE_ERR_NONE;
    case UPIPE_REGISTER_REQUEST: { struct urequest *r = va_arg(args, struct urequest *); return upipe_throw_provide_request(upipe, r); }
    case UPIPE_UNREGISTER_REQUEST: return UBASE_ERR_NONE;
    default: return UBASE_ERR_UNHANDLED;
    }
}
static struct upipe_mgr sink_mgr = { .refcount = NULL, .signature = 0, .upipe_alloc = sink_alloc, .upipe_input = sink_input, .upipe_control = sink_control };
static void sink_free(struct upipe *u) { upipe_throw_dead(u); upipe_clean(u); free(u); }
