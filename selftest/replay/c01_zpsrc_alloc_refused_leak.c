/* replay for C01 R-own (out-parameter producers): upipe_zpsrc_alloc receives a
 * duplicate of the flow definition from upipe_zpsrc_alloc_flow; when that
 * definition lacks planes / fps / hsize / vsize the pipe is freed and NULL
 * returned, but the duplicate is never freed.
 * Expected: after a refused allocation the uref manager is back to one owner. */
#undef NDEBUG
#include "upipe/umem.h"
#include "upipe/umem_alloc.h"
#include "upipe/udict.h"
#include "upipe/udict_inline.h"
#include "upipe/uref.h"
#include "upipe/uref_std.h"
#include "upipe/uref_pic_flow.h"
#include "upipe/uprobe.h"
#include "upipe/upipe.h"
#include "upipe-filters/upipe_zoneplate_source.h"
#include <stdio.h>
#include <assert.h>

static int catch(struct uprobe *uprobe, struct upipe *upipe, int event, va_list args) { return UBASE_ERR_NONE; }

int main(void)
{
    struct umem_mgr *umem_mgr = umem_alloc_mgr_alloc();
    struct udict_mgr *udict_mgr = udict_inline_mgr_alloc(0, umem_mgr, -1, -1);
    struct uref_mgr *uref_mgr = uref_std_mgr_alloc(0, udict_mgr, 0);
    struct uprobe uprobe;
    uprobe_init(&uprobe, catch, NULL);
    struct upipe_mgr *mgr = upipe_zpsrc_mgr_alloc();
    assert(mgr != NULL);

    /* a picture flow definition without size nor frame rate */
    struct uref *flow = uref_pic_flow_alloc_def(uref_mgr, 1);
    assert(flow != NULL);
    struct upipe *pipe = upipe_flow_alloc(mgr, uprobe_use(&uprobe), flow);
    printf("allocation with an incomplete flow definition: %s\n", pipe ? "accepted" : "refused");
    if (pipe)
        upipe_release(pipe);
    uref_free(flow);
    int single = urefcount_single(uref_mgr->refcount);
    printf("uref manager back to a single owner: %s\n", single ? "yes" : "NO (the duplicate of the flow definition is still alive)");
    upipe_mgr_release(mgr);
    printf(single ? "OK\n" : "FAIL\n");
    return !single;
}
