/* replay for C01 R-own upipe_audio_copy_handle:leak:uref (two cooperating
 * sites): upipe_audio_copy_set_flow_def() passes the CALLER's flow definition
 * to upipe_input(); upipe_audio_copy_handle() does not free in-band flow
 * definitions, which hides it - unless the input is blocked (no ubuf manager
 * yet), in which case the caller's uref is stored in the list of held urefs and
 * freed again when the pipe is cleaned. */
#include "common.h"
#include "upipe/uref_sound_flow.h"
#include "upipe/uref_sound.h"
#include "upipe/ubuf_sound_mem.h"
#include "upipe-modules/upipe_audio_copy.h"

static struct uref_mgr wrap_mgr;
static struct uref *watched;
static int watched_frees;
static struct uref *wrap_alloc(struct uref_mgr *mgr) {
    struct uref *u = uref_mgr->uref_alloc(uref_mgr);
    if (u) u->mgr = &wrap_mgr;
    return u;
}
static void wrap_free(struct uref *uref) {
    if (uref == watched) {
        watched_frees++;
        if (watched_frees > 1) { printf("the caller's flow definition %p was used and freed again after the caller released it (%d frees)\n", (void *)uref, watched_frees); fflush(stdout); _exit(1); }
        uref->udict = NULL; uref->ubuf = NULL;   /* already freed by uref_free(): make any later use visible */
        return;
    }
    uref->mgr = uref_mgr;
    uref_mgr->uref_free(uref);
}
/* sink that remembers the ubuf manager request instead of answering */
static struct urequest *pending;
static int rsink_control(struct upipe *upipe, int command, va_list args)
{
    switch (command) {
    case UPIPE_SET_FLOW_DEF: return UBASE_ERR_NONE;
    case UPIPE_REGISTER_REQUEST: {
        struct urequest *r = va_arg(args, struct urequest *);
        if (r->type == UREQUEST_UBUF_MGR) { pending = r; return UBASE_ERR_NONE; }
        return upipe_throw_provide_request(upipe, r);
    }
    case UPIPE_UNREGISTER_REQUEST: return UBASE_ERR_NONE;
    default: return UBASE_ERR_UNHANDLED;
    }
}
static struct upipe_mgr rsink_mgr = { .refcount = NULL, .signature = 0, .upipe_alloc = sink_alloc, .upipe_input = sink_input, .upipe_control = rsink_control };

int main(void)
{
    setup();
    wrap_mgr = *uref_mgr;
    wrap_mgr.uref_alloc = wrap_alloc;
    wrap_mgr.uref_free = wrap_free;
    struct upipe *sink = upipe_void_alloc(&rsink_mgr, uprobe_use(&uprobe_root));
    struct upipe_mgr *mgr = upipe_audio_copy_mgr_alloc();
    struct uref *flow_def = uref_sound_flow_alloc_def(uref_mgr, "s16.", 2, 4);
    ubase_assert(uref_sound_flow_set_samples(flow_def, 1024));
    struct upipe *p = upipe_flow_alloc(mgr, getenv("REPLAY_LOG") ? uprobe_stdio_alloc(uprobe_use(&uprobe_root), stdout, UPROBE_LOG_VERBOSE) : uprobe_use(&uprobe_root), flow_def);
    uref_free(flow_def);
    assert(p);
    ubase_assert(upipe_set_output(p, sink));
    /* first flow definition: handled at once; nobody answers the ubuf manager request */
    flow_def = uref_sound_flow_alloc_def(uref_mgr, "s16.", 2, 4);
    ubase_assert(uref_sound_flow_set_rate(flow_def, 48000));
    ubase_assert(uref_sound_flow_set_planes(flow_def, 2));
    ubase_assert(upipe_set_flow_def(p, flow_def));
    struct ubuf_mgr *sound_mgr = ubuf_sound_mem_mgr_alloc(0, 0, umem_mgr, 4, 4);
    assert(sound_mgr);
    ubase_assert(ubuf_sound_mem_mgr_add_plane(sound_mgr, "lr"));
    /* a sound buffer: held, the pipe waits for its ubuf manager */
    upipe_input(p, uref_sound_alloc(uref_mgr, sound_mgr, 100), NULL);
    /* second flow definition while blocked: control arguments belong to the caller */
    watched = uref_dup(flow_def);
    watched->mgr = &wrap_mgr;
    ubase_assert(upipe_set_flow_def(p, watched));
    uref_free(watched);       /* the caller releases its own reference */
    /* now the ubuf manager arrives: the held urefs are processed, among them
     * the flow definition the caller has already freed (run under valgrind
     * to see the invalid reads; the wrapper keeps the memory of the watched
     * uref so the program itself survives) */
    assert(pending);
    if (getenv("REPLAY_PROVIDE"))
        urequest_provide_ubuf_mgr(pending, ubuf_mgr_use(sound_mgr), uref_dup(flow_def));
    uref_free(flow_def);
    upipe_release(p);         /* clean_input frees what is held */
    printf("caller's flow definition freed %d time(s)\n", watched_frees);
    return watched_frees == 1 ? 0 : 1;
}
