/* replay for C08 R-progress uqueue[L=1]:U|U|OO
 * Interleaving found by the product exploration, forced deterministically:
 * producer B has linked its element into the FIFO and is "preempted" just
 * before it increments uqueue.counter; producer A then finds the queue full
 * and goes back to its event loop (event_push reset); the consumer pops B's
 * element - its decrement finds counter == 0, not == length, so event_push
 * is not written; B resumes: its increment returns 0xffffffff, not 0.
 * Result: the queue is empty, A sleeps on event_push which nobody will ever
 * write: a lost wake-up. */
#include <stdio.h>
#include <stdint.h>
#include <stdbool.h>
#include <stdlib.h>
#include <poll.h>
#include <upipe/ubase.h>
#include <upipe/uatomic.h>

static int hook_armed;
static void others(void);
static inline uint32_t hooked_fetch_add(uatomic_uint32_t *obj, uint32_t v)
{
    if (hook_armed) {            /* B's increment of uqueue.counter */
        hook_armed = 0;
        others();
    }
    return uatomic_fetch_add(obj, v);
}
#include <upipe/uring.h>
#include <upipe/ufifo.h>
#include <upipe/ueventfd.h>
#define uatomic_fetch_add hooked_fetch_add
#include <upipe/uqueue.h>

static struct uqueue q;
static int a_elem, b_elem;
static bool a_pushed;
static void *c1, *c2;

static bool readable(struct ueventfd *fd)
{
    struct pollfd p = { .fd = fd->event_fd, .events = POLLIN };
    return poll(&p, 1, 0) == 1 && (p.revents & POLLIN);
}

static void others(void)
{
    a_pushed = uqueue_push(&q, &a_elem);     /* producer A: full, goes to sleep */
    c1 = uqueue_pop(&q, void *);             /* consumer */
    c2 = uqueue_pop(&q, void *);
}

int main(void)
{
    void *extra = malloc(uqueue_sizeof(1));
    if (!uqueue_init(&q, 1, extra))
        return 2;
    hook_armed = 1;
    bool b_pushed = uqueue_push(&q, &b_elem);   /* producer B */
    printf("B pushed: %d, A pushed: %d (A found the queue full and went back to its event loop)\n", b_pushed, a_pushed);
    printf("consumer popped %s then %s\n", c1 == &b_elem ? "B's element" : c1 ? "?" : "NULL", c2 ? "an element" : "NULL (back to its event loop)");
    printf("queue length counter: %u; event_push readable: %d; event_pop readable: %d\n",
           uqueue_length(&q), readable(&q.event_push), readable(&q.event_pop));
    if (!a_pushed && !readable(&q.event_push)) {
        printf("FAIL: the queue is empty, producer A is waiting for event_push, and nothing will write it: lost wake-up\n");
        return 1;
    }
    printf("ok\n");
    return 0;
}
