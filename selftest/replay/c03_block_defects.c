/* replays for C03:
 *  R-err-atomic ubuf_block_delete:error-after-mutation - delete(5, 10) on a
 *    10-octet two-segment block reports an error after shrinking segments;
 *  R-cache-refresh ubuf_block_prepend - prepend then read at a non-zero
 *    offset returns octets shifted by the prepend length. */
#include "common.h"
#include "upipe/ubuf_block.h"
static struct ubuf *mk(int from, int n, int prepend_room)
{
    struct ubuf_mgr *mgr = ubuf_block_mem_mgr_alloc(0, 0, umem_mgr, prepend_room, 0, 0, 0);
    struct ubuf *u = ubuf_block_alloc(mgr, n);
    uint8_t *b; int s = -1;
    ubase_assert(ubuf_block_write(u, 0, &s, &b));
    for (int i = 0; i < n; i++) b[i] = from + i;
    ubuf_block_unmap(u, 0);
    ubuf_mgr_release(mgr);
    return u;
}
static int dump(struct ubuf *u, uint8_t *out, int max)
{
    size_t size; ubase_assert(ubuf_block_size(u, &size));
    if ((int)size > max) size = max;
    if (!ubase_check(ubuf_block_extract(u, 0, size, out))) return -1;
    return size;
}
int main(void)
{
    setup();
    int bad = 0;
    /* (a) rejected delete must leave size and content unchanged */
    struct ubuf *a = mk(0, 5, 0);
    ubase_assert(ubuf_block_append(a, mk(5, 5, 0)));
    uint8_t before[16], after[16];
    int nb = dump(a, before, 16);
    int err = ubuf_block_delete(a, 5, 10);
    int na = dump(a, after, 16);
    printf("delete(5,10) on 10 octets: err=%d, extract before=%d octets, after=%d\n", err, nb, na);
    if (!ubase_check(err) && (na != nb || memcmp(before, after, nb))) { printf("  rejected delete changed the block\n"); bad++; }
    ubuf_free(a);
    /* (b) prepend then read at offset >= prepend */
    struct ubuf *p = mk(10, 8, 4);
    ubase_assert(ubuf_block_prepend(p, 4));
    const uint8_t *r; int s = 1;
    ubase_assert(ubuf_block_read(p, 6, &s, &r));   /* octet 6 of the new block = old octet 2 = 12 */
    printf("after prepend(4), octet at offset 6 reads %u (expected 12)\n", r[0]);
    if (r[0] != 12) bad++;
    ubuf_block_unmap(p, 6);
    ubuf_free(p);
    return bad ? 1 : 0;
}
