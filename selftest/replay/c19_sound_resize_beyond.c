/* replay for C19 R-geometry sound:...:resize(5,-1): a resize whose offset lies
 * beyond the buffer, with "keep the end" (-1) as new size, must be refused;
 * new_size is computed as size - offset (negative), the range test
 * offset + new_size > size does not see it, and the buffer is left with a
 * size of 2^64 - 8 samples */
#include "common.h"
#include "upipe/ubuf_sound.h"
#include "upipe/ubuf_sound_mem.h"
int main(void)
{
    setup();
    struct ubuf_mgr *sm = ubuf_sound_mem_mgr_alloc(0, 0, umem_mgr, 4, 0);
    ubase_assert(ubuf_sound_mem_mgr_add_plane(sm, "lr"));
    struct ubuf *snd = ubuf_sound_alloc(sm, 32);
    assert(snd);
    int err = ubuf_sound_resize(snd, 40, -1);
    size_t size = 0; uint8_t ss = 0;
    ubuf_sound_size(snd, &size, &ss);
    printf("resize(offset 40, new_size -1) of a 32-sample buffer: err=%d (%s), size now %zu\n",
           err, ubase_check(err) ? "ACCEPTED" : "refused", size);
    int bad = ubase_check(err) || size != 32;
    ubuf_free(snd);
    ubuf_mgr_release(sm);
    return bad ? 1 : 0;
}
