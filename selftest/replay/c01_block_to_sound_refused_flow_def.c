/* replay for C01 R-borrowed-arg: upipe_block_to_sound_set_flow_def frees the
 * flow definition it is given when it refuses it (not "block.").  Arguments of
 * control commands belong to the caller, who frees the same uref again.
 * Run under valgrind (VALGRIND=1): expected no invalid access. */
#undef NDEBUG
#include "upipe/umem.h"
#include "upipe/umem_alloc.h"
#include "upipe/udict.h"
#include "upipe/udict_inline.h"
#include "upipe/uref.h"
#include "upipe/uref_std.h"
#include "upipe/uref_flow.h"
#include "upipe/uref_sound_flow.h"
#include "upipe/uref_pic_flow.h"
#include "upipe/uprobe.h"
#include "upipe/upipe.h"
#include "upipe-modules/upipe_block_to_sound.h"
#include <stdio.h>
#include <assert.h>

static int catch(struct uprobe *uprobe, struct upipe *upipe, int event, va_list args) { return UBASE_ERR_NONE; }

int main(void)
{
    struct umem_mgr *umem_mgr = umem_alloc_mgr_alloc();
    struct udict_mgr *udict_mgr = udict_inline_mgr_alloc(0, umem_mgr, -1, -1);
    struct uref_mgr *uref_mgr = uref_std_mgr_alloc(0, udict_mgr, 0);
    struct uprobe uprobe;
    uprobe_init(&uprobe, catch, NULL);

    struct uref *config = uref_sound_flow_alloc_def(uref_mgr, "s32.", 2, 8);
    uref_sound_flow_set_planes(config, 0);
    uref_sound_flow_add_plane(config, "lr");
    struct upipe_mgr *mgr = upipe_block_to_sound_mgr_alloc();
    struct upipe *pipe = upipe_flow_alloc(mgr, uprobe_use(&uprobe), config);
    assert(pipe);
    uref_free(config);

    struct uref *flow = uref_pic_flow_alloc_def(uref_mgr, 1);
    assert(flow);
    int err = upipe_set_flow_def(pipe, flow);
    printf("set_flow_def(pic.) refused: %s\n", ubase_check(err) ? "no" : "yes");
    /* the caller still owns its flow definition */
    const char *def = NULL;
    int ok = ubase_check(uref_flow_get_def(flow, &def)) && def != NULL;
    printf("caller's flow definition still readable: %s\n", ok ? def : "NO");
    uref_free(flow);
    upipe_release(pipe);
    upipe_mgr_release(mgr);
    uref_mgr_release(uref_mgr);
    udict_mgr_release(udict_mgr);
    umem_mgr_release(umem_mgr);
    printf("OK (if valgrind is silent)\n");
    return 0;
}
