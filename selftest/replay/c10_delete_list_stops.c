/* replay for C10 R-list-all: uref_attr_delete_list stops at the first
 * attribute whose deletion reports an error - and deleting an attribute that
 * is absent is an error.  uref_uri_delete() on a URI without userinfo
 * (http://example.org/path) deletes the scheme, fails on the userinfo, and
 * leaves host, path ... behind: the uref still carries half a URI.
 * Expected: after uref_uri_delete none of the URI attributes is present. */
#undef NDEBUG
#include "upipe/umem.h"
#include "upipe/umem_alloc.h"
#include "upipe/udict.h"
#include "upipe/udict_inline.h"
#include "upipe/uref.h"
#include "upipe/uref_std.h"
#include "upipe/uref_uri.h"
#include <stdio.h>
#include <assert.h>

int main(void)
{
    struct umem_mgr *umem_mgr = umem_alloc_mgr_alloc();
    struct udict_mgr *udict_mgr = udict_inline_mgr_alloc(0, umem_mgr, -1, -1);
    struct uref_mgr *uref_mgr = uref_std_mgr_alloc(0, udict_mgr, 0);
    struct uref *uref = uref_alloc_control(uref_mgr);
    assert(uref);
    ubase_assert(uref_uri_set_scheme(uref, "http"));
    ubase_assert(uref_uri_set_host(uref, "example.org"));
    ubase_assert(uref_uri_set_path(uref, "/path"));
    int err = uref_uri_delete(uref);
    const char *v = NULL;
    int left = 0;
    if (ubase_check(uref_uri_get_scheme(uref, &v))) { printf("scheme still %s\n", v); left++; }
    if (ubase_check(uref_uri_get_host(uref, &v))) { printf("host still %s\n", v); left++; }
    if (ubase_check(uref_uri_get_path(uref, &v))) { printf("path still %s\n", v); left++; }
    printf("uref_uri_delete returned %d, %d attribute(s) left\n", err, left);
    printf(left ? "FAIL\n" : "OK\n");
    uref_free(uref);
    uref_mgr_release(uref_mgr); udict_mgr_release(udict_mgr); umem_mgr_release(umem_mgr);
    return left ? 1 : 0;
}
