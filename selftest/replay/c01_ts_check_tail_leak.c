/* replay (by hand): upipe_ts_check_input leaks the tail of an input whose
 * size is not a multiple of the TS packet size.
 * build+run: EXTRA_SRC=lib/upipe-ts/upipe_ts_check.c selftest/replay/run.sh selftest/replay/c01_ts_check_tail_leak.c
 * exit 0 = every uref was freed or forwarded, 1 = leak */
#include "common.h"
#include "upipe-ts/upipe_ts_check.h"

int main(void)
{
    setup();
    struct upipe_mgr *mgr = upipe_ts_check_mgr_alloc();
    struct upipe *check = upipe_void_alloc(mgr, uprobe_use(&uprobe_root));
    assert(check != NULL);
    struct uref *flow = uref_block_flow_alloc_def(uref_mgr, "mpegts.");
    ubase_assert(upipe_set_flow_def(check, flow));
    uref_free(flow);
    struct upipe *sink = upipe_void_alloc(&sink_mgr, uprobe_use(&uprobe_root));
    ubase_assert(upipe_set_output(check, sink));

    unsigned before = live_urefs();
    struct uref *uref = uref_block_alloc(uref_mgr, block_mgr, 400);   /* 2 packets + 24 octets */
    uint8_t *buf; int size = -1;
    ubase_assert(uref_block_write(uref, 0, &size, &buf));
    memset(buf, 0x47, size);
    uref_block_unmap(uref, 0);
    upipe_input(check, uref, NULL);
    unsigned after = live_urefs();
    printf("packets forwarded: %u, urefs still alive: %u\n", sink_count, after - before);
    return after != before;
}
