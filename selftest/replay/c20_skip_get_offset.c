/* replay for C20 R-get-pure upipe_skip_control:UPIPE_SKIP_GET_OFFSET:
 * set_offset(5) then get_offset must report 5 and leave the offset alone */
#include <upipe/uprobe.h>
#include <upipe/upipe.h>
#include <upipe-modules/upipe_skip.h>
#include <stdio.h>
#include <assert.h>
static int catch(struct uprobe *uprobe, struct upipe *upipe, int event, va_list args)
{ return UBASE_ERR_NONE; }
int main(void)
{
    struct uprobe uprobe;
    uprobe_init(&uprobe, catch, NULL);
    struct upipe_mgr *mgr = upipe_skip_mgr_alloc();
    struct upipe *skip = upipe_void_alloc(mgr, uprobe_use(&uprobe));
    assert(skip);
    ubase_assert(upipe_skip_set_offset(skip, 5));
    size_t o = 99;
    ubase_assert(upipe_skip_get_offset(skip, &o));
    printf("get after set(5) -> %zu\n", o);
    size_t o2 = 0;
    ubase_assert(upipe_skip_get_offset(skip, &o2));
    printf("second get -> %zu\n", o2);
    upipe_release(skip);
    return (o == 5 && o2 == 5) ? 0 : 1;
}
