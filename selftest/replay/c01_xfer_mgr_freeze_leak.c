/* replay for C01 R-use-then-fail: _upipe_xfer_mgr_freeze takes a reference on
 * the manager and then returns the verdict of umutex_lock().  When the lock is
 * refused (a transfer manager allocated without a mutex, which is legal) the
 * caller gets the error, does not call thaw, and the reference is never given
 * back: the manager - and with it the worker it serves - can never be freed.
 * Expected: a refused freeze leaves the reference count as it was. */
#undef NDEBUG
#include "upipe/ubase.h"
#include "upipe/urefcount.h"
#include "upipe/upipe.h"
#include "upipe-modules/upipe_transfer.h"
#include <stdio.h>
#include <assert.h>

int main(void)
{
    struct upipe_mgr *mgr = upipe_xfer_mgr_alloc(16, 4, NULL);
    assert(mgr != NULL);
    int single_before = urefcount_single(mgr->refcount);
    int err = upipe_xfer_mgr_freeze(mgr);
    int single_after = urefcount_single(mgr->refcount);
    printf("freeze without a mutex returned %d; sole owner before: %d, after: %d\n", err, single_before, single_after);
    int bad = ubase_check(err) || !single_before || !single_after;
    printf(bad ? "FAIL: the refused freeze kept a reference on the manager\n" : "OK\n");
    /* (the manager is not released: freeing one that was never attached to an event loop is not allowed) */
    return bad;
}
