/* replay for C01 R-dangle upipe_qsink_set_output:upipe_release(upipe_qsink->output):
 * set_output(x) then set_output(NULL) releases x but leaves the field pointing
 * at it; the queue sink's free function releases it a second time. */
#include "common.h"
#include "upipe-modules/upipe_queue_source.h"
#include "upipe-modules/upipe_queue_sink.h"

static int x_dead;
static void x_free(struct urefcount *rc) { x_dead++; }

int main(void)
{
    setup();
    struct upipe_mgr *qsrc_mgr = upipe_qsrc_mgr_alloc();
    struct upipe *qsrc = upipe_qsrc_alloc(qsrc_mgr, uprobe_use(&uprobe_root), 4);
    assert(qsrc);
    struct upipe_mgr *qsink_mgr = upipe_qsink_mgr_alloc();
    struct upipe *qsink = upipe_qsink_alloc(qsink_mgr, uprobe_use(&uprobe_root), qsrc);
    assert(qsink);
    /* the pseudo-output: a pipe whose refcount we own */
    static struct upipe x; static struct urefcount x_rc;
    urefcount_init(&x_rc, x_free);
    upipe_init(&x, &sink_mgr, uprobe_use(&uprobe_root));
    x.refcount = &x_rc;
    ubase_assert(upipe_set_output(qsink, &x));
    ubase_assert(upipe_set_output(qsink, NULL));
    unsigned after_unset = uatomic_load(&x_rc.refcount);
    upipe_release(qsink);
    upipe_release(qsrc);
    printf("refcount of x after set_output(NULL): %u, destructor of x ran %d time(s) while the application still holds its reference\n",
           after_unset, x_dead);
    return (after_unset == 1 && x_dead == 0) ? 0 : 1;
}
