/* replay for C01 R-borrowed-arg: upipe_row_join_set_flow_def hands the flow
 * definition it is given to its ubuf-manager request, which keeps it (the
 * request owns its flow format).  Arguments of control commands belong to the
 * caller, who frees the same uref; the pipe frees it again with the request.
 * Run under valgrind (VALGRIND=1): expected no invalid access. */
#undef NDEBUG
#include "upipe/umem.h"
#include "upipe/umem_alloc.h"
#include "upipe/udict.h"
#include "upipe/udict_inline.h"
#include "upipe/ubuf.h"
#include "upipe/ubuf_pic.h"
#include "upipe/ubuf_pic_mem.h"
#include "upipe/uref.h"
#include "upipe/uref_std.h"
#include "upipe/uref_pic.h"
#include "upipe/uref_pic_flow.h"
#include "upipe/uprobe.h"
#include "upipe/uprobe_ubuf_mem.h"
#include "upipe/upipe.h"
#include "upipe-modules/upipe_row_join.h"
#include "upipe-modules/upipe_null.h"
#include <stdio.h>
#include <assert.h>

static int catch(struct uprobe *uprobe, struct upipe *upipe, int event, va_list args) { return UBASE_ERR_NONE; }

int main(void)
{
    struct umem_mgr *umem_mgr = umem_alloc_mgr_alloc();
    struct udict_mgr *udict_mgr = udict_inline_mgr_alloc(0, umem_mgr, -1, -1);
    struct uref_mgr *uref_mgr = uref_std_mgr_alloc(0, udict_mgr, 0);
    struct uprobe uprobe;
    uprobe_init(&uprobe, catch, NULL);
    struct uprobe *probe = uprobe_ubuf_mem_alloc(uprobe_use(&uprobe), umem_mgr, 0, 0);
    assert(probe);

    struct uref *flow = uref_pic_flow_alloc_def(uref_mgr, 1);
    ubase_assert(uref_pic_flow_add_plane(flow, 1, 1, 1, "y8"));
    ubase_assert(uref_pic_flow_set_hsize(flow, 96));
    ubase_assert(uref_pic_flow_set_vsize(flow, 64));
    ubase_assert(uref_pic_flow_set_fps(flow, (struct urational){ .num = 25, .den = 1 }));
    struct ubuf_mgr *pic_mgr = ubuf_pic_mem_mgr_alloc(0, 0, umem_mgr, 1, 0, 0, 0, 0, 0, 0);
    ubase_assert(ubuf_pic_mem_mgr_add_plane(pic_mgr, "y8", 1, 1, 1));

    struct upipe_mgr *null_mgr = upipe_null_mgr_alloc();
    struct upipe *null = upipe_void_alloc(null_mgr, uprobe_use(probe));
    struct upipe_mgr *mgr = upipe_row_join_mgr_alloc();
    struct upipe *rj = upipe_void_alloc(mgr, uprobe_use(probe));
    assert(rj && null);
    ubase_assert(upipe_set_output(rj, null));
    ubase_assert(upipe_set_flow_def(rj, flow));
    uref_free(flow);

    upipe_release(rj);
    upipe_release(null);
    int single = urefcount_single(uref_mgr->refcount);
    printf("uref manager back to a single owner after the pipe was released: %s\n", single ? "yes" : "NO");
    printf(single ? "OK\n" : "FAIL\n");
    upipe_mgr_release(mgr);
    upipe_mgr_release(null_mgr);
    ubuf_mgr_release(pic_mgr);
    uprobe_release(probe);
    uprobe_clean(&uprobe);
    uref_mgr_release(uref_mgr);
    udict_mgr_release(udict_mgr);
    umem_mgr_release(umem_mgr);
    return !single;
}
