/* replay for C15 R-decaps (sequences): a gap in the continuity counters (or
 * the start of the stream, or a discontinuity indicator) first seen on a
 * packet that carries no payload - an adaptation field with a PCR or stuffing
 * only - is noted, the counter is remembered, the packet is dropped ... and the
 * next packet that does carry payload is delivered without the discontinuity
 * flag: the gap is never reported downstream.
 * Expected: the first payload delivered after such a packet is flagged. */
#undef NDEBUG
#include "upipe/umem.h"
#include "upipe/umem_alloc.h"
#include "upipe/udict.h"
#include "upipe/udict_inline.h"
#include "upipe/ubuf.h"
#include "upipe/ubuf_block_mem.h"
#include "upipe/uref.h"
#include "upipe/uref_std.h"
#include "upipe/uref_flow.h"
#include "upipe/uref_block.h"
#include "upipe/uref_block_flow.h"
#include "upipe/uprobe.h"
#include "upipe/upipe.h"
#include "upipe-ts/upipe_ts_decaps.h"
#include <stdio.h>
#include <string.h>
#include <assert.h>

static int nb_out, last_disc;
static int catch(struct uprobe *uprobe, struct upipe *upipe, int event, va_list args) { return UBASE_ERR_NONE; }
static struct upipe *sink_alloc(struct upipe_mgr *mgr, struct uprobe *uprobe, uint32_t sig, va_list args)
{
    struct upipe *upipe = malloc(sizeof(struct upipe));
    upipe_init(upipe, mgr, uprobe);
    return upipe;
}
static void sink_input(struct upipe *upipe, struct uref *uref, struct upump **upump_p)
{
    nb_out++;
    last_disc = ubase_check(uref_flow_get_discontinuity(uref));
    uref_free(uref);
}
static int sink_control(struct upipe *upipe, int command, va_list args)
{
    return command == UPIPE_SET_FLOW_DEF ? UBASE_ERR_NONE : UBASE_ERR_UNHANDLED;
}
static struct upipe_mgr sink_mgr = { .refcount = NULL, .upipe_alloc = sink_alloc, .upipe_input = sink_input, .upipe_control = sink_control };

static struct uref_mgr *uref_mgr;
static struct ubuf_mgr *ubuf_mgr;
static struct uref *packet(int cc, int payload, int disc)
{
    struct uref *uref = uref_block_alloc(uref_mgr, ubuf_mgr, 188);
    assert(uref != NULL);
    uint8_t *b; int size = -1;
    ubase_assert(uref_block_write(uref, 0, &size, &b));
    memset(b, 0xff, 188);
    b[0] = 0x47; b[1] = 0x00; b[2] = 0x44;
    if (payload) {
        b[3] = 0x10 | cc;                 /* payload only */
        memset(b + 4, 0x55, 184);
    } else {
        b[3] = 0x20 | cc;                 /* adaptation field only, 183 octets */
        b[4] = 183;
        b[5] = disc ? 0x80 : 0x00;
    }
    uref_block_unmap(uref, 0);
    return uref;
}

int main(void)
{
    struct umem_mgr *umem_mgr = umem_alloc_mgr_alloc();
    struct udict_mgr *udict_mgr = udict_inline_mgr_alloc(0, umem_mgr, -1, -1);
    uref_mgr = uref_std_mgr_alloc(0, udict_mgr, 0);
    ubuf_mgr = ubuf_block_mem_mgr_alloc(0, 0, umem_mgr, 0, 0, -1, 0);
    struct uprobe uprobe;
    uprobe_init(&uprobe, catch, NULL);
    struct upipe *sink = upipe_void_alloc(&sink_mgr, uprobe_use(&uprobe));
    struct upipe_mgr *mgr = upipe_ts_decaps_mgr_alloc();
    int bad = 0;
    /* scenario: [first packet of the stream is AF-only] ; [cc gap seen on an AF-only packet] ; [discontinuity indicator on an AF-only packet] */
    for (int scen = 0; scen < 3; scen++) {
        struct upipe *decaps = upipe_void_alloc(mgr, uprobe_use(&uprobe));
        struct uref *flow_def = uref_block_flow_alloc_def(uref_mgr, "mpegts.");
        ubase_assert(upipe_set_flow_def(decaps, flow_def));
        uref_free(flow_def);
        ubase_assert(upipe_set_output(decaps, sink));
        nb_out = 0;
        if (scen > 0) {
            upipe_input(decaps, packet(4, 1, 0), NULL);
            upipe_input(decaps, packet(5, 1, 0), NULL);
        }
        int cc = scen == 1 ? 8 : 5;           /* scen 1: packets 6 and 7 were lost; the AF-only packet repeats the counter of the last payload before it (8) */
        upipe_input(decaps, packet(cc, 0, scen == 2), NULL);
        int before = nb_out;
        upipe_input(decaps, packet((cc + 1) & 15, 1, 0), NULL);
        printf("scenario %d: payload after the packet without payload: output=%d discontinuity=%d\n", scen, nb_out - before, last_disc);
        if (nb_out - before != 1 || !last_disc)
            bad++;
        upipe_release(decaps);
    }
    printf(bad ? "FAIL: %d scenario(s) lose the discontinuity\n" : "OK\n", bad);
    free(sink);
    upipe_mgr_release(mgr);
    return bad ? 1 : 0;
}
