/* replay for C07 R-lin ufifo[L=2,pre=2]:OUO|O
 * Interleaving found by the product exploration, forced here deterministically:
 * thread B's pop is "preempted" just before its first compare-exchange on the
 * FIFO descriptor (it has computed prev from head=1, tail=2); thread A then
 * runs pop, push(x), pop to completion; B resumes.  B's compare-exchange fails,
 * the retry test compares only the head *index* (1 again, with a new tag) and
 * re-uses the stale predecessor: the descriptor ends up designating two
 * recycled elements.  Symptoms: the queue is empty but the descriptor is not
 * NULL, and the next pop never returns. */
#include <stdio.h>
#include <stdint.h>
#include <stdbool.h>
#include <stdlib.h>
#include <signal.h>
#include <unistd.h>
#include <upipe/ubase.h>
#include <upipe/uatomic.h>

static int hook_armed;
static void other_thread(void);
static inline bool hooked_cas(uatomic_uint32_t *obj, uint32_t *expected, uint32_t desired)
{
    if (hook_armed == 2) {           /* first compare-exchange of B's pop on the carrier FIFO */
        hook_armed = 0;
        other_thread();
    }
    return uatomic_compare_exchange(obj, expected, desired);
}
/* everything below sees the hooked primitive */
#define uatomic_compare_exchange hooked_cas
#include <upipe/uring.h>
#include <upipe/ufifo.h>

static struct ufifo fifo;
static int p0, p1, x;
static void *a_results[3];

static void other_thread(void)
{
    a_results[0] = ufifo_pop(&fifo, void *);
    a_results[1] = ufifo_push(&fifo, &x) ? &x : NULL;
    a_results[2] = ufifo_pop(&fifo, void *);
}

static void hang(int sig)
{
    printf("FAIL: ufifo_pop on the (empty) FIFO does not return: the descriptor designates recycled elements\n");
    _exit(1);
}

int main(void)
{
    void *extra = malloc(ufifo_sizeof(2));
    ufifo_init(&fifo, 2, extra);
    ufifo_push(&fifo, &p0);
    ufifo_push(&fifo, &p1);
    /* thread B: pop, preempted before its compare-exchange on fifo_carrier */
    hook_armed = 2;
    void *b = ufifo_pop(&fifo, void *);
    printf("A: pop=%s push=%s pop=%s   B: pop=%s\n",
           a_results[0] == &p0 ? "p0" : "?", a_results[1] ? "ok" : "full",
           a_results[2] == &p1 ? "p1" : a_results[2] == &x ? "x" : a_results[2] ? "?" : "NULL",
           b == &p0 ? "p0" : b == &p1 ? "p1" : b == &x ? "x" : b ? "?" : "NULL");
    printf("descriptor after all operations: %08x (an empty FIFO is 00000000)\n",
           (unsigned)uatomic_load(&fifo.fifo_carrier));
    signal(SIGALRM, hang);
    alarm(3);
    /* everything that was pushed has been popped: the FIFO is empty and has two free slots.
     * Single-threaded from here on. */
    static int y, z;
    int bad = 0;
    void *d = ufifo_pop(&fifo, void *);
    printf("pop on the empty FIFO -> %s\n", d ? "an element" : "NULL");
    bool ok1 = ufifo_push(&fifo, &y), ok2 = ufifo_push(&fifo, &z), ok3 = ufifo_push(&fifo, &x);
    printf("push y -> %d, push z -> %d, third push (must fail: 2 slots) -> %d\n", ok1, ok2, ok3);
    bad += !ok1 || !ok2 || ok3;
    void *r1 = ufifo_pop(&fifo, void *), *r2 = ufifo_pop(&fifo, void *), *r3 = ufifo_pop(&fifo, void *);
    printf("pop -> %s, pop -> %s, pop -> %s (expected y, z, NULL)\n",
           r1 == &y ? "y" : r1 == &z ? "z" : r1 == &x ? "x" : r1 ? "?" : "NULL",
           r2 == &y ? "y" : r2 == &z ? "z" : r2 == &x ? "x" : r2 ? "?" : "NULL",
           r3 == &y ? "y" : r3 == &z ? "z" : r3 == &x ? "x" : r3 ? "?" : "NULL");
    bad += r1 != &y || r2 != &z || r3 != NULL;
    alarm(0);
    if (bad) {
        printf("FAIL: the FIFO no longer behaves as a FIFO of 2 slots\n");
        return 1;
    }
    printf("ok\n");
    return 0;
}
