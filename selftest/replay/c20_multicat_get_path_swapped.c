/* replay for C20 R-va-seq: upipe_multicat_sink_control reads both out-pointers
 * of UPIPE_MULTICAT_SINK_GET_PATH with va_arg() inside one argument list; the
 * order of evaluation of call arguments is unspecified and gcc on x86-64 goes
 * right to left: the getter hands the suffix back as the path and the path as
 * the suffix.
 * Expected: get_path returns what set_path stored. */
#undef NDEBUG
#include "upipe/uprobe.h"
#include "upipe/upipe.h"
#include "upipe-modules/upipe_multicat_sink.h"
#include "upipe-modules/upipe_file_sink.h"
#include <stdio.h>
#include <string.h>
#include <assert.h>

static int catch(struct uprobe *uprobe, struct upipe *upipe, int event, va_list args) { return UBASE_ERR_NONE; }

int main(void)
{
    struct uprobe uprobe;
    uprobe_init(&uprobe, catch, NULL);
    struct upipe_mgr *mgr = upipe_multicat_sink_mgr_alloc();
    struct upipe_mgr *fsink_mgr = upipe_fsink_mgr_alloc();
    struct upipe *pipe = upipe_void_alloc(mgr, uprobe_use(&uprobe));
    assert(pipe != NULL);
    ubase_assert(upipe_multicat_sink_set_fsink_mgr(pipe, fsink_mgr));
    ubase_assert(upipe_multicat_sink_set_path(pipe, "/dir/", ".ts"));
    const char *path = NULL, *suffix = NULL;
    ubase_assert(upipe_multicat_sink_get_path(pipe, &path, &suffix));
    printf("set_path(\"/dir/\", \".ts\") then get_path: path=\"%s\" suffix=\"%s\"\n", path, suffix);
    int ok = path && suffix && !strcmp(path, "/dir/") && !strcmp(suffix, ".ts");
    upipe_release(pipe);
    upipe_mgr_release(mgr);
    upipe_mgr_release(fsink_mgr);
    printf(ok ? "OK\n" : "FAIL\n");
    return !ok;
}
