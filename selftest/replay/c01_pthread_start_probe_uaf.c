/* replay (by hand, run under valgrind): upipe_pthread_start releases the
 * context's reference on uprobe_pthread_upump_mgr and then logs through it
 * when upump_mgr_run() fails.  The probe given here has one reference (the
 * one handed to upipe_pthread_xfer_mgr_alloc), so it is freed by that
 * release.
 * build+run: REPO=/repo VALGRIND=1 selftest/replay/run.sh selftest/replay/c01_pthread_start_probe_uaf.c -lupipe_pthread
 * exit 0 = no invalid access, exit 1 = valgrind reported an error */
#include "common.h"
#include "upipe/upump.h"
#include "upipe-pthread/upipe_pthread_transfer.h"
#include "upipe-pthread/uprobe_pthread_upump_mgr.h"
#include "upump-ev/upump_ev.h"
#include <pthread.h>
#include <unistd.h>

static struct upump *fake_upump_alloc(struct upump_mgr *mgr, int event, va_list args)
{ struct upump *u = calloc(1, sizeof(*u)); u->mgr = mgr; return u; }
static int fake_upump_control(struct upump *upump, int command, va_list args)
{ if (command == UPUMP_FREE) free(upump); return UBASE_ERR_NONE; }
static int fake_mgr_control(struct upump_mgr *mgr, int command, va_list args)
{
    return UBASE_ERR_INVALID;      /* in particular UPUMP_MGR_RUN fails */
}
static struct upump_mgr fake_mgr = {
    .refcount = NULL, .signature = 0,
    .upump_alloc = fake_upump_alloc, .upump_control = fake_upump_control,
    .upump_mgr_control = fake_mgr_control,
};
static struct upump_mgr *fake_mgr_alloc(uint16_t a, uint16_t b) { return &fake_mgr; }

int main(void)
{
    setup();
    /* a refcounted probe with exactly one reference */
    struct upump_mgr *main_mgr = upump_ev_mgr_alloc_default(0, 0);
    struct uprobe *probe = uprobe_pthread_upump_mgr_alloc(
            uprobe_stdio_alloc(NULL, stderr, UPROBE_LOG_ERROR));
    assert(probe != NULL);
    uprobe_pthread_upump_mgr_set(probe, main_mgr);
    pthread_attr_t attr;
    pthread_attr_init(&attr);
    struct upipe_mgr *xfer = upipe_pthread_xfer_mgr_alloc(4, 4, probe,
            fake_mgr_alloc, 0, 0, NULL, NULL, &attr);
    /* allocation may legitimately fail without an event loop in this
     * thread; what matters is what the thread does */
    assert(xfer != NULL);
    upipe_mgr_release(xfer);
    upump_mgr_run(main_mgr, NULL);      /* until upipe_pthread_stop has run */
    upump_mgr_release(main_mgr);
    return 0;
}
