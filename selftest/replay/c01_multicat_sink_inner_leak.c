/* replay for C01 R-own-pipe: _upipe_multicat_sink_output_alloc allocates the
 * inner file sink, and when that pipe refuses the flow definition returns the
 * error without releasing it: every failed set_path leaks one pipe (and its
 * probe).  The phony inner sink below counts allocations and frees.
 * Expected: as many frees as allocations once the multicat sink is gone. */

#undef NDEBUG

#include "upipe/uprobe.h"
#include "upipe/uprobe_stdio.h"
#include "upipe/uprobe_prefix.h"
#include "upipe/umem.h"
#include "upipe/umem_alloc.h"
#include "upipe/udict.h"
#include "upipe/udict_inline.h"
#include "upipe/uref.h"
#include "upipe/uref_flow.h"
#include "upipe/uref_block_flow.h"
#include "upipe/uref_clock.h"
#include "upipe/uref_std.h"
#include "upipe/uclock.h"
#include "upipe/upipe.h"
#include "upipe-modules/upipe_file_sink.h"
#include "upipe-modules/upipe_multicat_sink.h"

#include <stdio.h>
#include <stdlib.h>
#include <stdbool.h>
#include <assert.h>

#define UDICT_POOL_DEPTH 0
#define UREF_POOL_DEPTH 0

/** phony inner sink */
struct phony {
    /** number of set_flow_def received */
    unsigned int nb_flow_def;
    /** true if the last set_flow_def was accepted */
    bool accepted;
    struct urefcount urefcount;
    struct upipe upipe;
};
static unsigned int nb_freed = 0;
static void phony_free(struct urefcount *urefcount);

static bool phony_accepts = false;
static unsigned int nb_phony = 0;
static unsigned int nb_inputs = 0;
static unsigned int nb_violations = 0;

static struct upipe *phony_alloc(struct upipe_mgr *mgr, struct uprobe *uprobe,
                                 uint32_t signature, va_list args)
{
    struct phony *phony = malloc(sizeof(struct phony));
    assert(phony != NULL);
    phony->nb_flow_def = 0;
    phony->accepted = false;
    upipe_init(&phony->upipe, mgr, uprobe);
    urefcount_init(&phony->urefcount, phony_free);
    phony->upipe.refcount = &phony->urefcount;
    nb_phony++;
    printf("phony %p allocated\n", &phony->upipe);
    return &phony->upipe;
}

static void phony_input(struct upipe *upipe, struct uref *uref,
                        struct upump **upump_p)
{
    struct phony *phony = container_of(upipe, struct phony, upipe);
    nb_inputs++;
    printf("phony %p input (set_flow_def received: %u, last %s)\n", upipe,
           phony->nb_flow_def, phony->accepted ? "accepted" : "not accepted");
    if (!phony->accepted) {
        printf("VIOLATION: buffer delivered to a pipe that did not accept "
               "the flow definition\n");
        nb_violations++;
    }
    uref_free(uref);
}

static int phony_control(struct upipe *upipe, int command, va_list args)
{
    struct phony *phony = container_of(upipe, struct phony, upipe);
    switch (command) {
        case UPIPE_SET_FLOW_DEF:
            phony->nb_flow_def++;
            phony->accepted = phony_accepts;
            printf("phony %p set_flow_def -> %s\n", upipe,
                   phony_accepts ? "accepted" : "rejected");
            return phony_accepts ? UBASE_ERR_NONE : UBASE_ERR_INVALID;
        default:
            /* fsink-specific commands (set_path...) */
            return UBASE_ERR_NONE;
    }
}

static void phony_free(struct urefcount *urefcount)
{
    struct phony *phony = container_of(urefcount, struct phony, urefcount);
    nb_freed++;
    upipe_clean(&phony->upipe);
    urefcount_clean(urefcount);
    free(phony);
}

static struct upipe_mgr phony_mgr = {
    .refcount = NULL,
    .signature = UPIPE_FSINK_SIGNATURE,
    .upipe_alloc = phony_alloc,
    .upipe_input = phony_input,
    .upipe_control = phony_control
};

static int catch(struct uprobe *uprobe, struct upipe *upipe,
                 int event, va_list args)
{
    return UBASE_ERR_NONE;
}

int main(int argc, char **argv)
{
    (void)phony_free;
    setvbuf(stdout, NULL, _IONBF, 0);

    struct umem_mgr *umem_mgr = umem_alloc_mgr_alloc();
    assert(umem_mgr != NULL);
    struct udict_mgr *udict_mgr =
        udict_inline_mgr_alloc(UDICT_POOL_DEPTH, umem_mgr, -1, -1);
    assert(udict_mgr != NULL);
    struct uref_mgr *uref_mgr =
        uref_std_mgr_alloc(UREF_POOL_DEPTH, udict_mgr, 0);
    assert(uref_mgr != NULL);

    struct uprobe uprobe;
    uprobe_init(&uprobe, catch, NULL);
    struct uprobe *logger =
        uprobe_stdio_alloc(uprobe_use(&uprobe), stdout, UPROBE_LOG_DEBUG);
    assert(logger != NULL);

    struct upipe_mgr *msink_mgr = upipe_multicat_sink_mgr_alloc();
    assert(msink_mgr != NULL);
    struct upipe *msink = upipe_void_alloc(msink_mgr,
            uprobe_pfx_alloc(uprobe_use(logger), UPROBE_LOG_DEBUG, "msink"));
    assert(msink != NULL);
    ubase_assert(upipe_multicat_sink_set_fsink_mgr(msink, &phony_mgr));
    ubase_assert(upipe_multicat_sink_set_rotate(msink, UCLOCK_FREQ, 0));

    /* 1. flow definition, accepted (and stored) by the multicat sink */
    struct uref *flow_def = uref_block_flow_alloc_def(uref_mgr, NULL);
    assert(flow_def != NULL);
    ubase_assert(upipe_set_flow_def(msink, flow_def));
    uref_free(flow_def);

    /* 2. the inner sink rejects the flow def */
    phony_accepts = false;
    int err = upipe_multicat_sink_set_path(msink, "/tmp/seed-C04-demo-", ".x");
    printf("first set_path returned %d\n", err);
    if (ubase_check(err)) {
        printf("unexpected: set_path succeeded though the flow def was "
               "rejected\n");
        return 2;
    }

    /* 3. the inner sink is now able to accept, try again */
    phony_accepts = true;
    err = upipe_multicat_sink_set_path(msink, "/tmp/seed-C04-demo-", ".x");
    printf("second set_path returned %d\n", err);
    if (!ubase_check(err)) {
        printf("unexpected: second set_path failed\n");
        return 2;
    }

    /* 4. send one buffer */
    struct uref *uref = uref_alloc(uref_mgr);
    assert(uref != NULL);
    uref_clock_set_cr_sys(uref, 5 * UCLOCK_FREQ + 42);
    upipe_input(msink, uref, NULL);

    upipe_release(msink);
    uprobe_release(logger);
    uprobe_clean(&uprobe);
    uref_mgr_release(uref_mgr);
    udict_mgr_release(udict_mgr);
    umem_mgr_release(umem_mgr);

    printf("phony pipes: %u allocated, %u freed\n", nb_phony, nb_freed);
    if (nb_freed != nb_phony) {
        printf("FAIL: %u inner sink(s) leaked\n", nb_phony - nb_freed);
        return 1;
    }
    if (nb_inputs != 1) {
        printf("unexpected: the buffer was not delivered\n");
        return 2;
    }
    return 0;
}
