#!/bin/sh
# by-hand replay helper (not part of any check): builds one small driver
# against the libraries built in $REPO (default /repo) and runs it.
# usage: run.sh driver.c [extra libs...]
REPO=${REPO:-/repo}
src=$1; shift
out=$(mktemp -d /tmp/upv-replay.XXXXXX)
L="$REPO/lib/upipe/.libs $REPO/lib/upipe-filters/.libs $REPO/lib/upipe-modules/.libs $REPO/lib/upump-ev/.libs $REPO/lib/upipe-pthread/.libs"
LF=""; LP=""
for d in $L; do LF="$LF -L$d"; LP="$LP:$d"; done
HERE=$(dirname "$0")
XS=""
for x in $EXTRA_SRC; do XS="$XS $REPO/$x"; done
cc -g -O0 -I$REPO/include -I$REPO -I$HERE/../../stubs -DHAVE_CONFIG_H -o $out/a.out "$src" $XS $LF -lupipe_modules -lupipe "$@" -lev -lpthread || exit 2
# EXTRA_SRC: repo-relative sources of libraries the baseline does not build
# (lib/upipe-ts, lib/upipe-framers), compiled against /verif/stubs
# VALGRIND=1: run under valgrind, exit 1 on any reported error
if [ -n "$VALGRIND" ]; then
    LD_LIBRARY_PATH=$LP timeout 120 valgrind -q --error-exitcode=1 --leak-check=full $out/a.out $REPLAY_ARGS; rc=$?
else
    LD_LIBRARY_PATH=$LP timeout 20 $out/a.out $REPLAY_ARGS; rc=$?
fi
rm -rf $out
echo "exit=$rc"
exit $rc
