#!/bin/sh
# by-hand replay helper (not part of any check): builds one small driver
# against the libraries built in $REPO (default /repo) and runs it.
# usage: run.sh driver.c [extra libs...]
REPO=${REPO:-/repo}
src=$1; shift
out=$(mktemp -d /tmp/upv-replay.XXXXXX)
L="$REPO/lib/upipe/.libs $REPO/lib/upipe-modules/.libs $REPO/lib/upump-ev/.libs $REPO/lib/upipe-pthread/.libs"
LF=""; LP=""
for d in $L; do LF="$LF -L$d"; LP="$LP:$d"; done
cc -g -O0 -I$REPO/include -I$REPO -o $out/a.out "$src" $LF -lupipe_modules -lupipe "$@" -lev -lpthread || exit 2
LD_LIBRARY_PATH=$LP timeout 20 $out/a.out; rc=$?
rm -rf $out
echo "exit=$rc"
exit $rc
