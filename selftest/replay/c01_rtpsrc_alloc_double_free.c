/* replay for C01 R-own (out-parameter producers): upipe_rtpsrc_alloc frees the
 * flow definition it got from alloc_flow once it has given a copy to its inner
 * setflowdef pipe, and frees it again on the error path taken when the RTP
 * decapsulation pipe cannot be allocated (here: an rtpd manager that refuses).
 * The unit is not part of the default build (biTStream absent): compiled here.
 * build+run: VALGRIND=1 EXTRA_SRC=lib/upipe-modules/upipe_rtp_source.c selftest/replay/run.sh selftest/replay/c01_rtpsrc_alloc_double_free.c
 * Expected: valgrind silent. */
#undef NDEBUG
#include "upipe/umem.h"
#include "upipe/umem_alloc.h"
#include "upipe/udict.h"
#include "upipe/udict_inline.h"
#include "upipe/uref.h"
#include "upipe/uref_std.h"
#include "upipe/uref_flow.h"
#include "upipe/uprobe.h"
#include "upipe/upipe.h"
#include "upipe-modules/upipe_rtp_source.h"
#include <stdio.h>
#include <assert.h>

static int catch(struct uprobe *uprobe, struct upipe *upipe, int event, va_list args) { return UBASE_ERR_NONE; }

/* stands for the RTP decapsulation module: a manager that cannot allocate */
static struct upipe *refuse_alloc(struct upipe_mgr *mgr, struct uprobe *uprobe, uint32_t signature, va_list args)
{
    uprobe_release(uprobe);
    return NULL;
}
static struct upipe_mgr refusing_mgr = { .refcount = NULL, .upipe_alloc = refuse_alloc };
struct upipe_mgr *upipe_rtpd_mgr_alloc(void) { return &refusing_mgr; }

int main(void)
{
    struct umem_mgr *umem_mgr = umem_alloc_mgr_alloc();
    struct udict_mgr *udict_mgr = udict_inline_mgr_alloc(0, umem_mgr, -1, -1);
    struct uref_mgr *uref_mgr = uref_std_mgr_alloc(0, udict_mgr, 0);
    struct uprobe uprobe;
    uprobe_init(&uprobe, catch, NULL);
    struct upipe_mgr *mgr = upipe_rtpsrc_mgr_alloc();
    assert(mgr != NULL);
    struct uref *flow = uref_alloc_control(uref_mgr);
    ubase_assert(uref_flow_set_def(flow, "block.mpegts."));
    struct upipe *pipe = upipe_flow_alloc(mgr, uprobe_use(&uprobe), flow);
    printf("allocation with an rtpd manager that refuses: %s\n", pipe ? "accepted" : "refused");
    if (pipe)
        upipe_release(pipe);
    uref_free(flow);
    upipe_mgr_release(mgr);
    uref_mgr_release(uref_mgr);
    udict_mgr_release(udict_mgr);
    umem_mgr_release(umem_mgr);
    printf("OK (if valgrind is silent)\n");
    return 0;
}
