/* replay for C19 R-usub-cmp ubuf_pic_common_plane_map / ubuf_sound_common_plane_map:
 * a window that starts beyond the picture / sound buffer must be refused */
#include "common.h"
#include "upipe/ubuf_pic.h"
#include "upipe/ubuf_pic_mem.h"
#include "upipe/ubuf_sound.h"
#include "upipe/ubuf_sound_mem.h"
int main(void)
{
    setup();
    int bad = 0;
    struct ubuf_mgr *pm = ubuf_pic_mem_mgr_alloc(0, 0, umem_mgr, 1, 0, 0, 0, 0, 0, 0);
    ubase_assert(ubuf_pic_mem_mgr_add_plane(pm, "y8", 1, 1, 1));
    struct ubuf *pic = ubuf_pic_alloc(pm, 32, 32);
    assert(pic);
    const uint8_t *r;
    int err = ubuf_pic_plane_read(pic, "y8", 64, 0, 8, 8, &r);
    printf("pic 32x32: read window at hoffset 64 (8x8): err=%d (%s)\n", err, ubase_check(err) ? "ACCEPTED" : "refused");
    if (ubase_check(err)) { bad++; ubuf_pic_plane_unmap(pic, "y8", 64, 0, 8, 8); }
    err = ubuf_pic_plane_read(pic, "y8", 0, 40, 8, 8, &r);
    printf("pic 32x32: read window at voffset 40 (8x8): err=%d (%s)\n", err, ubase_check(err) ? "ACCEPTED" : "refused");
    if (ubase_check(err)) { bad++; ubuf_pic_plane_unmap(pic, "y8", 0, 40, 8, 8); }
    ubuf_free(pic);
    struct ubuf_mgr *sm = ubuf_sound_mem_mgr_alloc(0, 0, umem_mgr, 4, 0);
    ubase_assert(ubuf_sound_mem_mgr_add_plane(sm, "lr"));
    struct ubuf *snd = ubuf_sound_alloc(sm, 100);
    assert(snd);
    err = ubuf_sound_plane_read_uint8_t(snd, "lr", 200, 10, &r);
    printf("sound 100 samples: read 10 samples at offset 200: err=%d (%s)\n", err, ubase_check(err) ? "ACCEPTED" : "refused");
    if (ubase_check(err)) { bad++; ubuf_sound_plane_unmap(snd, "lr", 200, 10); }
    ubuf_free(snd);
    return bad ? 1 : 0;
}
