#!/bin/sh
# usage: seedrun.sh <patch.diff> <PROP> [tier]  -- applies the patch to /repo, runs the check, reverts
p=$1; prop=$2; tier=${3:-quick}
cd /repo || exit 2
git apply --check "$p" || { echo "patch does not apply"; exit 2; }
git apply "$p"
cd /verif && ./vcheck $prop --tier $tier --no-evidence > /tmp/seedrun.$$.out 2>&1; rc=$?
git -C /repo checkout -- . 
grep -E "^(VIOLATION|  rule=|ANALYSIS|KNOWN)" /tmp/seedrun.$$.out | cut -c1-400 | head -12
echo "rc=$rc"; rm -f /tmp/seedrun.$$.out
